"""Source-free monitors attached at the embedding-application boundary."""
import copy

from .refval import canon


class ModelMutated(Exception):
    pass


class WatchedGlobals(dict):
    """Passed as options['globals']: records every write (name, canonical value snapshot) and every read by name."""

    def __init__(self, *a, **kw):
        super().__init__(*a, **kw)
        self.writes = []
        self.reads = {}
        self.armed = True

    def __setitem__(self, k, v):
        if self.armed:
            self.writes.append((k, canon(v)))
        dict.__setitem__(self, k, v)

    def update(self, *a, **kw):  # library injection goes through update(): record as 'inject'
        items = list(dict(*a, **kw).items()) if not (a and not isinstance(a[0], dict)) else list(a[0])
        for k, v in items:
            if self.armed:
                self.writes.append(('$inject', k))
            dict.__setitem__(self, k, v)

    def __getitem__(self, k):
        if self.armed:
            self.reads[k] = self.reads.get(k, 0) + 1
        return dict.__getitem__(self, k)

    def get(self, k, default=None):
        if self.armed:
            self.reads[k] = self.reads.get(k, 0) + 1
        return dict.get(self, k, default)


class WatchedOptions(dict):
    """Passed as options: records every write of statementCount together with the identity of the dict
    written; copy() returns a watched copy sharing the sink (so an include's options stay observed)."""

    def __init__(self, *a, **kw):
        super().__init__(*a, **kw)
        self.sink = []
        self.ident = 0
        self._next = [1]

    def __setitem__(self, k, v):
        if k == 'statementCount':
            self.sink.append((self.ident, v))
        dict.__setitem__(self, k, v)

    def copy(self):
        c = WatchedOptions(dict.copy(self))
        c.sink = self.sink
        c._next = self._next
        c.ident = self._next[0]
        self._next[0] += 1
        return c


def counter_invariant(sink, limit, allow_skip=True):
    """Monotone-counter monitor over the whole run (parent and watched copies together).
    Returns None if fine else a description. Values start at 0 and never decrease (a repeated value is a carry-back of an unchanged count); never exceeds
    limit+1 when limit>0. Skips are tolerated by default: the data helpers evaluate under a plain
    dict(options) copy the monitor cannot see, so a correct carry-back of that copy's count is a jump."""
    prev = None
    prev_id = None
    for n, (ident, v) in enumerate(sink):
        if prev is None:
            if v != 0:
                return f'first counter write is {v}, not 0'
        else:
            if v < prev:
                return f'counter went backwards {prev}->{v} at write {n} (dict {prev_id}->{ident})'
            # (a repeated value on the same dict is legitimate: a data function called with a variables object carries its copy's
            #  count back even when no callback ran - e.g. over an empty table; a statement that starts without being counted
            #  shows in the comparison of the final count with the reference clock instead)
            if v > prev + 1 and not allow_skip:
                return f'counter skipped {prev}->{v} at write {n}'
        if limit and limit > 0 and v > limit + 1:
            return f'counter {v} exceeds limit+1 ({limit + 1})'
        prev, prev_id = v, ident
    return None


class VirtualFS:
    """fetchFn over an in-memory file map with programmable faults; records resolved URLs in call order."""

    def __init__(self, files, faults=None, norm=None):
        self.files = files
        self.calls = []
        self.faults = faults or {}
        self.norm = norm or (lambda u: u)

    def __call__(self, request):
        url = request['url']
        n = len(self.calls)
        self.calls.append(url)
        fault = self.faults.get(n)
        if fault == 'raise':
            raise OSError(f'injected fetch fault #{n}')
        if fault == 'raise-rt':
            # a fetch function that itself fails with the interpreter's error type (e.g. it runs a script of its own): a failed fetch like any other
            from bare_script.runtime import BareScriptRuntimeError
            raise BareScriptRuntimeError(f'injected fetch fault #{n}')
        if fault == 'raise-bare':
            raise KeyError()
        if fault == 'none':
            return None
        if fault == 'broken':
            return 'x = (1 +\n'
        text = self.files.get(self.norm(url))
        if text is None:
            raise FileNotFoundError(url)
        return text


class LibrarySpy:
    """Wrappers around library functions pre-populated in globals (the runtime never overwrites
    caller-supplied names). Records per call: name, args before/after, result or raised exception."""

    def __init__(self, library, names=None, deep=True):
        self.calls = []
        self.deep = deep
        self.wrapped = {}
        for name, fn in library.items():
            if names is None or name in names:
                self.wrapped[name] = self._wrap(name, fn)

    def _wrap(self, name, fn):
        def spy(args, options):
            rec = {'name': name, 'before': canon(args), 'raised': None}
            self.calls.append(rec)
            try:
                res = fn(args, options)
            except Exception as exc:
                rec['raised'] = type(exc).__name__
                rec['exc'] = exc
                rec['return_value'] = getattr(exc, 'return_value', None)
                rec['after'] = canon(args)
                raise
            rec['after'] = canon(args)
            rec['result'] = res
            return res
        spy.__name__ = f'spy_{name}'
        return spy


class HostProbes:
    """Host callables tN(args, options): log an event (evaluation order / exactly-once / laziness) and
    return a programmed value."""

    def __init__(self):
        self.events = []

    def make(self, tag, value):
        def probe(args, options):  # pylint: disable=unused-argument
            self.events.append((tag, canon(args)))
            return value
        return probe


class FrozenDict(dict):
    def _no(self, *a, **kw):
        raise ModelMutated(f'dict mutated: {a[:1]}')
    __setitem__ = __delitem__ = clear = pop = popitem = setdefault = update = _no
    __ior__ = _no


class FrozenList(list):
    def _no(self, *a, **kw):
        raise ModelMutated(f'list mutated: {a[:1]}')
    __setitem__ = __delitem__ = append = extend = insert = pop = remove = clear = sort = reverse = _no
    __iadd__ = __imul__ = _no


def freeze(obj):
    """Deep copy of a model into mutation-sanitizer proxies: the first write raises ModelMutated."""
    if isinstance(obj, dict):
        return FrozenDict((k, freeze(v)) for k, v in obj.items())
    if isinstance(obj, list):
        return FrozenList(freeze(v) for v in obj)
    return obj


def thaw(obj):
    return copy.deepcopy(_plain(obj))


def _plain(obj):
    if isinstance(obj, dict):
        return {k: _plain(v) for k, v in obj.items()}
    if isinstance(obj, list):
        return [_plain(v) for v in obj]
    return obj
