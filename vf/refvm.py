"""RefVM: small-step reference interpreter of the jump-level model (statement list, first-label lookup
in the same list, return, function binding, includes with base re-resolution, statement budget).

One global statement clock is shared by the top level, script functions (however invoked) and included
scripts; with limit L > 0 the run is aborted exactly when statement L+1 would start.
"""
import functools
import posixpath
import re

from .refeval import Propagate, RefEval, RefRuntimeError
from .refval import truthy

_URL = re.compile(r'^[a-z]+:')


def resolve(base, url):
    """Include resolution: absolute URL unchanged; absolute path unchanged; relative against the directory of the
    containing file (URL or path); no base -> unchanged."""
    if _URL.match(url):
        return url
    if url.startswith('/'):
        return url
    if base is None:
        return url
    if _URL.match(base):
        return base[:base.rfind('/') + 1] + url
    d = posixpath.dirname(base)
    return posixpath.join(d, url) if d else url


def norm_url(u):
    """Normalise ./.. and // for comparison (both sides are normalised before comparing)."""
    m = re.match(r'^([a-z]+://[^/]*)(/.*)?$', u)
    if m:
        return m.group(1) + (posixpath.normpath(m.group(2)) if m.group(2) else '')
    return posixpath.normpath(u)


class Exceeded(RefRuntimeError):
    pass


class RefVM:
    def __init__(self, globals_, library, limit=0, fetch=None, base=None, system_prefix=None, parse=None, fuel=200000,
                 debug=False, bool_num=False):
        self.g = globals_
        self.logs = []
        self.clock = 0
        self.limit = limit
        self.fetch = fetch
        self.fetches = []
        self.system_prefix = system_prefix
        self.parse = parse
        self.base0 = base
        self.fuel = fuel
        self.options = {'globals': self.g, 'logFn': self.logs.append, 'maxStatements': 0, 'debug': debug}
        for k, v in library.items():
            if k not in self.g:
                if hasattr(self.g, 'armed'):
                    dict.__setitem__(self.g, k, v)
                else:
                    self.g[k] = v
        self.evaluator = RefEval(self.g, self.options, library, Propagate, builtins=False,
                                 on_call_fail=self._call_failed if debug else None, bool_num=bool_num)

    def _call_failed(self, name, exc):
        self.logs.append(f'BareScript: Function "{name}" failed with error: {exc}')

    def run(self, model):
        # includes resolve against the file whose statements are running; a function called from that file includes
        # relative to it as well (only functions defined and called in the same file are generated)
        self._bases = [self.base0]
        return self.exec(model['statements'], None, self.base0)

    def ev(self, e, loc):
        return self.evaluator.ev(e, loc)

    def exec(self, stmts, loc, base):
        ix = 0
        n = len(stmts)
        while ix < n:
            (k, v), = stmts[ix].items()
            self.clock += 1
            if self.limit > 0 and self.clock > self.limit:
                raise Exceeded(f'Exceeded maximum script statements ({self.limit})')
            if self.clock > self.fuel:
                raise RefRuntimeError('ref-fuel')
            if k == 'expr':
                val = self.ev(v['expr'], loc)
                if 'name' in v:
                    if loc is not None:
                        loc[v['name']] = val
                    else:
                        self.g[v['name']] = val
            elif k == 'jump':
                if 'expr' not in v or truthy(self.ev(v['expr'], loc)):
                    tgt = None
                    for i, s in enumerate(stmts):
                        if s.get('label') == v['label']:
                            tgt = i
                            break
                    if tgt is None:
                        raise RefRuntimeError(f'Unknown jump label "{v["label"]}"')
                    ix = tgt
            elif k == 'return':
                return self.ev(v['expr'], loc) if 'expr' in v else None
            elif k == 'function':
                self.g[v['name']] = functools.partial(self.call, v)
            elif k == 'include':
                for inc in v['includes']:
                    url = inc['url']
                    if inc.get('system') and self.system_prefix is not None:
                        url = resolve(self.system_prefix, url)
                    else:
                        url = resolve(base, url)
                    self.fetches.append(url)
                    try:
                        text = self.fetch(url) if self.fetch is not None else None
                    except Exception:  # pylint: disable=broad-except
                        text = None
                    if text is None:
                        raise RefRuntimeError(f'Include of "{url}" failed')
                    try:
                        model = self.parse(text)
                    except Exception as exc:
                        if type(exc).__name__ == 'BareScriptParserError':
                            raise IncludeParseError(url, exc) from exc
                        raise
                    self._bases.append(url)
                    try:
                        self.exec(model['statements'], None, url)
                    finally:
                        self._bases.pop()
            elif k == 'label':
                pass
            else:
                raise AssertionError(k)
            ix += 1
        return None

    def call(self, f, args, options):  # pylint: disable=unused-argument
        loc = {}
        params = f.get('args') or []
        for i, p in enumerate(params):
            if f.get('lastArgArray') and i == len(params) - 1:
                loc[p] = list(args[i:])
            else:
                loc[p] = args[i] if i < len(args) else None
        return self.exec(f['statements'], loc, self._bases[-1] if getattr(self, '_bases', None) else None)


class IncludeParseError(Exception):
    def __init__(self, url, exc):
        super().__init__(f'Included from "{url}"')
        self.url = url
        self.exc = exc
