"""Structured-program AST, source printer and big-step reference interpreter (RefAST).

Statements (JSON-able lists so that replay payloads round-trip):
  ['assign', name, expr]  ['expr', expr]  ['if', [[cond, body], ...], else_body|None]
  ['while', cond, body]   ['for', var, idx|None, values_expr, body]
  ['break'] ['continue'] ['return', expr|None]  ['func', name, params, lastarr, body]
Expressions are expression-model dicts (group-free).
"""
import functools

from .refeval import Diverge, Propagate, RefEval
from .refexpr import estr
from .refval import canon, truthy


def pp(stmts, ind=0, out=None, indent='    '):
    out = [] if out is None else out
    pad = indent * ind
    for s in stmts:
        t = s[0]
        if t == 'assign':
            out.append(f'{pad}{s[1]} = {estr(s[2])}')
        elif t == 'expr':
            out.append(f'{pad}{estr(s[1])}')
        elif t == 'if':
            for i, (c, b) in enumerate(s[1]):
                out.append(f'{pad}{"if" if i == 0 else "elif"} {estr(c)}:')
                pp(b, ind + 1, out, indent)
            if s[2] is not None:
                out.append(f'{pad}else:')
                pp(s[2], ind + 1, out, indent)
            out.append(f'{pad}endif')
        elif t == 'while':
            out.append(f'{pad}while {estr(s[1])}:')
            pp(s[2], ind + 1, out, indent)
            out.append(f'{pad}endwhile')
        elif t == 'for':
            out.append(f'{pad}for {s[1]}{", " + s[2] if s[2] else ""} in {estr(s[3])}:')
            pp(s[4], ind + 1, out, indent)
            out.append(f'{pad}endfor')
        elif t == 'break':
            out.append(f'{pad}break')
        elif t == 'continue':
            out.append(f'{pad}continue')
        elif t == 'return':
            out.append(f'{pad}return' + (' ' + estr(s[1]) if s[1] is not None else ''))
        elif t == 'func':
            out.append(f'{pad}function {s[1]}({", ".join(s[2])}{"..." if s[3] else ""}):')
            pp(s[4], ind + 1, out, indent)
            out.append(f'{pad}endfunction')
        else:
            raise AssertionError(t)
    return out


class _Brk(Exception):
    pass


class _Cnt(Exception):
    pass


class _Ret(Exception):
    def __init__(self, v):
        super().__init__()
        self.v = v


class RefAST:
    """Big-step reading of the source. variant='while_continue_skips_test' reproduces finding F7
    (used only to classify a disagreement as that known mechanism)."""

    def __init__(self, globals_, library, fuel=20000, variant=None, debug=False, record=True, bool_num=False):
        self.g = globals_
        self.logs = []
        self.writes = []  # history of global writes (name, canonical value)
        self.fuel = fuel
        self.variant = variant
        self.record = record
        self.options = {'globals': self.g, 'logFn': self.logs.append, 'maxStatements': 0, 'debug': debug}
        for k, v in library.items():
            if k not in self.g:
                self.g[k] = v
        self.evaluator = RefEval(self.g, self.options, library, Propagate, builtins=False,
                                 on_call_fail=self._call_failed if debug else None, bool_num=bool_num)

    def _call_failed(self, name, exc):
        self.logs.append(f'BareScript: Function "{name}" failed with error: {exc}')

    def ev(self, e, loc):
        return self.evaluator.ev(e, loc)

    def tick(self):
        self.fuel -= 1
        if self.fuel < 0:
            raise Diverge('diverge')

    def run(self, stmts):
        try:
            self.block(stmts, None)
            return None
        except _Ret as r:
            return r.v

    def block(self, stmts, loc):
        for s in stmts:
            self.stmt(s, loc)

    def setv(self, name, v, loc):
        if loc is not None:
            loc[name] = v
        else:
            self.g[name] = v
            if self.record:
                self.writes.append((name, canon(v)))

    def stmt(self, s, loc):
        self.tick()
        t = s[0]
        if t == 'assign':
            self.setv(s[1], self.ev(s[2], loc), loc)
        elif t == 'expr':
            self.ev(s[1], loc)
        elif t == 'if':
            for c, b in s[1]:
                if truthy(self.ev(c, loc)):
                    self.block(b, loc)
                    return
            if s[2] is not None:
                self.block(s[2], loc)
        elif t == 'while':
            skip_test = False
            while True:
                self.tick()
                if not skip_test and not truthy(self.ev(s[1], loc)):
                    break
                skip_test = False
                try:
                    self.block(s[2], loc)
                except _Brk:
                    break
                except _Cnt:
                    if self.variant == 'while_continue_skips_test':
                        skip_test = True
        elif t == 'for':
            vals = self.ev(s[3], loc)
            n = len(vals) if isinstance(vals, list) else 0
            i = 0
            while i < n:
                self.tick()
                if s[2]:
                    self.setv(s[2], i, loc)
                self.setv(s[1], vals[i] if i < len(vals) else None, loc)
                try:
                    self.block(s[4], loc)
                except _Brk:
                    break
                except _Cnt:
                    pass
                i += 1
        elif t == 'break':
            raise _Brk()
        elif t == 'continue':
            raise _Cnt()
        elif t == 'return':
            raise _Ret(self.ev(s[1], loc) if s[1] is not None else None)
        elif t == 'func':
            fn = functools.partial(self.call, s)
            self.g[s[1]] = fn
            if self.record:
                self.writes.append((s[1], canon(fn)))
        else:
            raise AssertionError(t)

    def call(self, f, args, options):  # pylint: disable=unused-argument
        _, _, params, lastarr, body = f
        loc = {}
        for i, p in enumerate(params):
            if lastarr and i == len(params) - 1:
                loc[p] = list(args[i:])
            else:
                loc[p] = args[i] if i < len(args) else None
        try:
            self.block(body, loc)
            return None
        except _Ret as r:
            return r.v
