"""Shard worker: python -m vf.shard <ID> <spec.json> <out.json>. Imports bare_script from the current /repo tree."""
import faulthandler
import json
import random
import sys

from vf import core


def main():
    prop, spec_path, out_path = sys.argv[1:4]
    with open(spec_path, 'r', encoding='utf-8') as fh:
        spec = json.load(fh)
    faulthandler.enable()
    sys.setrecursionlimit(3000)
    random.seed(spec.get('seed', 0))
    mod = core.load_check(prop)
    acc = core.Acc(prop)
    if spec.get('mode') == 'replay':
        mod.replay(spec, acc)
    else:
        mod.run_shard(spec, acc)
    with open(out_path, 'w', encoding='utf-8') as fh:
        json.dump(acc.result(), fh, default=repr)


if __name__ == '__main__':
    main()
