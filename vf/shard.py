"""Shard worker: python -m vf.shard <ID> <spec.json> <out.json>. Imports bare_script from the current /repo tree."""
import faulthandler
import json
import os
import random
import sys

from vf import core


def main():
    prop, spec_path, out_path = sys.argv[1:4]
    with open(spec_path, 'r', encoding='utf-8') as fh:
        spec = json.load(fh)
    faulthandler.enable()
    sys.setrecursionlimit(3000)
    random.seed(spec.get('seed', 0))
    mod = core.load_check(prop)
    acc = core.Acc(prop)
    cov = None
    if spec.get('reach'):
        try:  # statement reach of the code under observation (evidence only; sys.monitoring core keeps the overhead small)
            os.environ.setdefault('COVERAGE_CORE', 'sysmon')
            import coverage
            cov = coverage.Coverage(data_file=None, source=[os.path.join(core.REPO_SRC, 'bare_script')], branch=False)
            cov.start()
        except Exception:  # pylint: disable=broad-except
            cov = None
    try:
        if spec.get('mode') == 'replay':
            if prop in ('C01', 'C04', 'C08', 'C09'):
                from . import exec_prog
                exec_prog.prior_runs()  # the workload shards of these checks start with this history; a replay gets it too
            mod.replay(spec, acc)
        else:
            mod.run_shard(spec, acc)
    except Exception as exc:  # pylint: disable=broad-except
        # An exception the driver did not anticipate: if it was raised INSIDE the code under observation (innermost frame
        # in the repository tree) the monitored call failed where the property allows no failure -> violation, with the
        # results gathered so far kept. Anything else is a harness defect: re-raise (the parent reports "inconclusive").
        import traceback
        tb = traceback.extract_tb(exc.__traceback__)
        inner = tb[-1].filename if tb else ''
        if os.path.realpath(inner).startswith(os.path.realpath(core.REPO_SRC) + os.sep):
            acc.violation('unexpected-exception-in-observed-code', f'{type(exc).__name__}: {exc}\n' + ''.join(traceback.format_list(tb[-6:])),
                          {'shard': spec.get('part'), 'exception': type(exc).__name__})
        else:
            raise
    res = acc.result()
    if cov is not None:
        try:
            cov.stop()
            data = cov.get_data()
            reach = {}
            for f in data.measured_files():
                try:
                    executable = cov.analysis2(f)[1]
                except Exception:  # pylint: disable=broad-except
                    executable = []
                # count statements only (the monitoring core also reports continuation lines of multi-line statements)
                reach[os.path.relpath(f, core.REPO_SRC)] = {'executed': sorted(set(data.lines(f) or []) & set(executable)), 'executable': len(executable)}
            res['reach'] = reach
        except Exception:  # pylint: disable=broad-except
            pass
    with open(out_path, 'w', encoding='utf-8') as fh:
        json.dump(res, fh, default=repr)


if __name__ == '__main__':
    main()
