"""Run a structured program on the real implementation (under monitors) and on RefAST, and compare."""
import copy
import re

from . import core, gen_prog, refval
from .monitors import WatchedGlobals
from .refast import RefAST, pp
from .refeval import Diverge, Domain, RefRuntimeError, Unspecified

refval.register_fn('host_fn', gen_prog.host_fn)
refval.register_fn('host_hp', gen_prog.host_hp)

DROP = object()  # options_extra value: remove that key from the options of the real run
_SKIP_NAME = re.compile(r'^(__bareScript.*|it\d+|ix\d+)$')


def real_api():
    import bare_script
    from bare_script.library import SCRIPT_FUNCTIONS
    from bare_script.parser import BareScriptParserError
    from bare_script.runtime import BareScriptRuntimeError
    return bare_script, SCRIPT_FUNCTIONS, BareScriptRuntimeError, BareScriptParserError


def hosts(pattern, extra=None):
    h = {'hp': gen_prog.host_hp}
    if pattern is not None:
        h['nx'] = gen_prog.make_nx(pattern)
    if extra:
        h.update(extra)
    return h


def user_globals(g, library, host_names):
    out = {}
    for k, v in g.items():
        if k in library or k in host_names or _SKIP_NAME.match(k):
            continue
        out[k] = refval.canon(v)
    return out


def filter_writes(writes, library, host_names):
    return [[k, v] for k, v in writes if k != '$inject' and k not in host_names and not _SKIP_NAME.match(k)]


def run_ref(prog, init, pattern, library, fuel=30000, variant=None, bool_num=False, debug=False, extra_hosts=None):
    g = WatchedGlobals(copy.deepcopy(init))
    h = hosts(pattern, extra_hosts)
    g.armed = False
    for k, v in h.items():
        dict.__setitem__(g, k, v)
    for k, v in library.items():  # the library never overwrites a caller-supplied name
        if k not in g:
            dict.__setitem__(g, k, v)
    g.armed = True
    ref = RefAST(g, library, fuel=fuel, variant=variant, debug=debug, bool_num=bool_num, record=False)
    try:
        res = ref.run(prog)
        status = 'ok'
    except Diverge:
        status, res = 'diverge', None
    except (Domain, Unspecified):
        return None
    except RefRuntimeError as exc:
        status, res = 'rterr:' + str(exc), None
    except Exception as exc:  # a real library function raised its runtime error type
        if type(exc).__name__ == 'BareScriptRuntimeError':
            status, res = 'rterr:' + str(exc), None
        else:
            raise
    return {'status': status, 'result': refval.canon(res), 'logs': ref.logs,
            'writes': filter_writes(g.writes, library, h), 'globals': user_globals(g, library, h)}


def run_real(text, init, pattern, limit=60000, debug=False, parse=None, timeout=20.0, options_extra=None, extra_hosts=None, reuse=None):
    bare_script, library, rt_err, p_err = real_api()
    parse = parse or bare_script.parse_script
    g = WatchedGlobals(copy.deepcopy(init))
    h = hosts(pattern, extra_hosts)
    g.armed = False
    for k, v in h.items():
        dict.__setitem__(g, k, v)
    g.armed = True
    logs = []
    options = {'globals': g, 'logFn': logs.append, 'maxStatements': limit, 'debug': debug}
    if reuse is not None:
        # the SAME options object as for earlier, other programs of this process (whatever they left in it), with this run's settings
        reuse.update(options)
        options = reuse
    if options_extra:
        options.update(options_extra)
        for k in [k for k, v in options_extra.items() if v is DROP]:
            del options[k]
    try:
        with core.alarm(timeout):
            model = parse(text)
            try:
                res = bare_script.execute_script(model, options)
                status = 'ok'
            except rt_err as exc:
                msg = str(exc)
                status, res = ('diverge' if msg.startswith('Exceeded maximum script statements') else 'rterr:' + msg), None
    except core.CaseTimeout:
        return {'status': 'timeout'}
    except p_err as exc:
        return {'status': 'parse-error:' + str(exc), 'result': None, 'logs': logs, 'writes': [], 'globals': {}, 'reads': {}}
    except Exception as exc:  # pylint: disable=broad-except
        return {'status': f'host-exception:{type(exc).__name__}:{exc}', 'result': None, 'logs': logs,
                'writes': filter_writes(g.writes, library, h), 'globals': user_globals(g, library, h), 'reads': dict(g.reads)}
    g.armed = False
    return {'status': status, 'result': refval.canon(res), 'logs': logs,
            'writes': filter_writes(g.writes, library, h), 'globals': user_globals(g, library, h),
            'reads': dict(g.reads), 'count': options.get('statementCount'), 'host_after': {k: g.get(k) is v for k, v in h.items()} if g.__setattr__('armed', False) is None else {}}


_LOWERING_DEBUG = re.compile(r'^BareScript: .*"(arrayLength|arrayGet)"')


def _nolower(logs):
    # debug-mode lines produced by the for-loop lowering when the walked value is not an array (or shrank) are an
    # artefact no structured reading fixes: dropped on both sides before comparing
    return [l for l in logs if not _LOWERING_DEBUG.match(l)]


def _norm_status(st):
    if isinstance(st, str) and st.startswith('rterr:'):
        return ('rterr', refval.norm_error(st[6:]))
    return st


def same(a, b):
    """None if the observable behaviour agrees, else the name of the first differing component."""
    a = dict(a, logs=[refval.norm_log(l) for l in _nolower(a['logs'])], status=_norm_status(a['status']))
    b = dict(b, logs=[refval.norm_log(l) for l in _nolower(b['logs'])], status=_norm_status(b['status']))
    if a['status'] != b['status']:
        return 'status'
    if a['status'] == 'diverge':
        n = min(len(a['logs']), len(b['logs']))
        return None if a['logs'][:n] == b['logs'][:n] else 'logs-prefix'
    for k in ('result', 'logs', 'writes', 'globals'):
        if a[k] != b[k]:
            return k
    return None


VARIANTS = [
    ('F7', {'variant': 'while_continue_skips_test'}),
    ('F14', {'bool_num': True}),
    ('F7+F14', {'variant': 'while_continue_skips_test', 'bool_num': True}),
]


def compare_case(prog, init, pattern, acc, prop, library, text=None, case=None, parse=None, debug=False, fuel=4000, limit=60000, extra_hosts=None):
    """Run ref first (bounded), then real under an alarm; classify disagreements.
    Returns (verdict, real, ref) where verdict in ok/known/violation/skip/timeout."""
    ref = run_ref(prog, init, pattern, library, fuel=fuel, debug=debug, extra_hosts=extra_hosts)
    if ref is None:
        acc.count('skipped_unspecified_by_reference')
        return 'skip', None, None
    if ref['status'] == 'diverge':
        acc.count('skipped_reference_out_of_fuel')
        return 'skip', None, None
    if text is None:
        text = '\n'.join(pp(prog))
    real = run_real(text, init, pattern, debug=debug, parse=parse, limit=limit, extra_hosts=extra_hosts)
    if real['status'] == 'timeout':
        acc.timeouts += 1
        return 'timeout', real, ref
    acc.count('log_lines', len(real['logs']))
    acc.count('global_writes', len(real['writes']))
    diff = same(real, ref)
    if diff is None:
        return 'ok', real, ref
    for fid, kw in VARIANTS:
        alt = run_ref(prog, init, pattern, library, fuel=fuel, debug=debug, extra_hosts=extra_hosts, **kw)
        if alt is not None and same(real, alt) is None:
            for f in fid.split('+'):
                acc.known_finding(f, text.replace('\n', ' | ')[:300])
            return 'known', real, ref
    acc.violation('behaviour-differs-from-structured-reading:' + diff,
                  f'{diff}: real={_short(real, diff)} ref={_short(ref, diff)}\n{text}',
                  case if case is not None else {'prog': prog, 'init': refval.enc(init), 'pattern': pattern})
    return 'violation', real, ref


def _short(r, k):
    if k in ('status', 'logs-prefix'):
        return repr((r['status'], r['logs'][-6:]))[:700]
    return repr(r[k])[:700]


# ------------------------------------------------------------------ greedy shrinker for violating programs

def _variants(stmts):
    """Smaller variants of a statement list: one statement removed, or a compound statement replaced by one of its bodies."""
    for i, st in enumerate(stmts):
        yield stmts[:i] + stmts[i + 1:]
        t = st[0]
        if t == 'if':
            for _, body in st[1]:
                yield stmts[:i] + body + stmts[i + 1:]
            if st[2] is not None:
                yield stmts[:i] + st[2] + stmts[i + 1:]
                yield stmts[:i] + [['if', st[1], None]] + stmts[i + 1:]
            if len(st[1]) > 1:
                yield stmts[:i] + [['if', st[1][:-1], st[2]]] + stmts[i + 1:]
            for k, (c, body) in enumerate(st[1]):
                for v in _variants(body):
                    yield stmts[:i] + [['if', st[1][:k] + [[c, v]] + st[1][k + 1:], st[2]]] + stmts[i + 1:]
            if st[2] is not None:
                for v in _variants(st[2]):
                    yield stmts[:i] + [['if', st[1], v]] + stmts[i + 1:]
        elif t == 'while':
            for v in _variants(st[2]):
                yield stmts[:i] + [['while', st[1], v]] + stmts[i + 1:]
        elif t == 'for':
            for v in _variants(st[4]):
                yield stmts[:i] + [['for', st[1], st[2], st[3], v]] + stmts[i + 1:]
        elif t == 'func':
            for v in _variants(st[4]):
                yield stmts[:i] + [['func', st[1], st[2], st[3], v]] + stmts[i + 1:]


def shrink(prog, still_fails, budget=400):
    """Greedy: keep applying the first smaller variant that still violates, within a budget of predicate evaluations."""
    spent = 0
    improved = True
    while improved and spent < budget:
        improved = False
        for v in _variants(prog):
            spent += 1
            if spent > budget:
                break
            try:
                ok = still_fails(v)
            except Exception:  # pylint: disable=broad-except
                ok = False
            if ok:
                prog = v
                improved = True
                break
    return prog


# ------------------------------------------------------------------ earlier runs in the same process

PRIOR_TEXT = '''\
va = 'stale va'
vb = 'stale vb'
vc = 99
vd = arrayNew('stale')
w1 = 77
it1 = 'stale it'
ix1 = 55
n = 1000
m = 'stale m'
c = true
cnt = 500
function fn0(p0):
    return 'stale fn0'
endfunction
function fn1():
    return 'stale fn1'
endfunction
function f1(x):
    return 'stale f1'
endfunction
for itq, ixq in arrayNew(1, 2):
    g0 = itq
endfor
'''


def prior_runs():
    """A history for every workload process: scripts executed earlier WITHOUT a globals object (options omitted, options without
    'globals', globals None) that assign the very names the generated programs use. Nothing of it may be visible to later runs
    that bring their own globals."""
    bare_script = real_api()[0]
    model = bare_script.parse_script(PRIOR_TEXT)
    bare_script.execute_script(model)
    bare_script.execute_script(model, {})
    bare_script.execute_script(model, {'globals': None, 'maxStatements': 1000})
    from bare_script.runtime import evaluate_expression
    evaluate_expression({'function': {'name': 'max', 'args': [{'number': 1.0}, {'variable': 'va'}]}})
    return 3

