"""Core of the verification harness: paths, dependency bootstrap, shard accumulator, runner, evidence.

Everything here is harness-side; nothing is imported from /repo in this module so that the parent
process never holds repository code (each shard imports the current working tree freshly).
"""
import hashlib
import importlib
import json
import os
import signal
import subprocess
import sys
import time
from concurrent.futures import ThreadPoolExecutor

VERIF = os.path.dirname(os.path.dirname(os.path.abspath(__file__)))
REPO = os.environ.get('VERIF_REPO', '/repo')
REPO_SRC = os.path.join(REPO, 'src')
DEPS = os.path.join(VERIF, '.deps')
SCRATCH = os.path.join(VERIF, '.scratch')
PYTHON = os.environ.get('VERIF_PYTHON', '/venv/bin/python')
WHEELS = '/opt/veriftools/wheels'
GUARD = 'BARE_SCRIPT_PY_VERIF'
NPROC = int(os.environ.get('VERIF_NPROC', '16'))
HASH_CAP = 200000


def ensure_deps():
    """Install icontract (+deps) offline next to the harness if missing. Failure is tolerated:
    the contract layer falls back to its own decorators (see vf/contracts.py)."""
    if os.path.isdir(os.path.join(DEPS, 'icontract')):
        return True
    try:
        subprocess.run([PYTHON, '-m', 'pip', 'install', '-q', '--no-index', '--find-links', WHEELS,
                        '--target', DEPS, 'icontract', 'asttokens', 'deal'],
                       check=True, stdout=subprocess.DEVNULL, stderr=subprocess.DEVNULL, timeout=300)
        return True
    except Exception:  # pylint: disable=broad-except
        return False


def case_hash(obj):
    """Stable 60-bit hash of a JSON-able canonical form of a case."""
    if not isinstance(obj, (str, bytes)):
        obj = json.dumps(obj, sort_keys=True, default=repr)
    if isinstance(obj, str):
        obj = obj.encode('utf-8', 'surrogatepass')
    return int.from_bytes(hashlib.blake2b(obj, digest_size=8).digest(), 'big') >> 4


class CaseTimeout(Exception):
    pass


class Acc:
    """Per-shard accumulator of what the monitors observed."""

    def __init__(self, prop):
        self.prop = prop
        self.evaluations = 0
        self.hashes = set()
        self.hash_overflow = 0
        self.violations = []
        self.nviol = 0
        self.known = {}
        self.counters = {}
        self.tables = {}
        self.samples = []
        self.inconclusive = []
        self.timeouts = 0

    def case(self, key=None, nontrivial=True):
        """Count one executed case; key is a canonical form used for the distinct count."""
        self.evaluations += 1
        if nontrivial and key is not None:
            if len(self.hashes) < HASH_CAP:
                self.hashes.add(case_hash(key))
            else:
                self.hash_overflow += 1

    def violation(self, kind, msg, case):
        self.nviol += 1
        if len(self.violations) < 12:
            self.violations.append({'kind': kind, 'msg': str(msg)[:4000], 'case': case})

    def known_finding(self, fid, example):
        ent = self.known.setdefault(fid, {'count': 0, 'example': None})
        ent['count'] += 1
        if ent['example'] is None:
            ent['example'] = str(example)[:600]

    def count(self, name, n=1):
        self.counters[name] = self.counters.get(name, 0) + n

    def cover(self, table, key):
        self.tables.setdefault(table, set()).add(key if isinstance(key, str) else json.dumps(key, default=repr))

    def sample(self, obj, limit=3):
        if len(self.samples) < limit:
            self.samples.append(obj)

    def note_inconclusive(self, why):
        if why not in self.inconclusive:
            self.inconclusive.append(why)

    def result(self):
        return {
            'evaluations': self.evaluations,
            'hashes': sorted(self.hashes),
            'hash_overflow': self.hash_overflow,
            'violations': self.violations,
            'nviol': self.nviol,
            'known': self.known,
            'counters': self.counters,
            'tables': {k: sorted(v) for k, v in self.tables.items()},
            'samples': self.samples,
            'inconclusive': self.inconclusive,
            'timeouts': self.timeouts,
        }


class alarm:  # pylint: disable=invalid-name
    """Wall-clock watchdog around a single case; firing means *inconclusive*, never a violation.
    The raised CaseTimeout derives from BaseException-free Exception; callers catch it explicitly."""

    def __init__(self, seconds):
        self.seconds = seconds

    def _fire(self, signum, frame):
        raise CaseTimeout()

    def __enter__(self):
        self.old = signal.signal(signal.SIGALRM, self._fire)
        signal.setitimer(signal.ITIMER_REAL, self.seconds)

    def __exit__(self, *exc):
        signal.setitimer(signal.ITIMER_REAL, 0)
        signal.signal(signal.SIGALRM, self.old)
        return False


def load_known():
    path = os.path.join(VERIF, 'known_findings.json')
    with open(path, 'r', encoding='utf-8') as fh:
        return json.load(fh)


def shard_env(extra=None, seed=0):
    env = dict(os.environ)
    env['PYTHONPATH'] = os.pathsep.join([VERIF, REPO_SRC, DEPS])
    # deterministic per VERIF_SEED, but not the same string-hash order for every seed (order-dependent defects are not masked)
    env['PYTHONHASHSEED'] = str(int(seed) % 4000000000)
    env['PYTHONDONTWRITEBYTECODE'] = '1'
    env[GUARD] = '1'
    env.pop('TZ', None)
    if extra:
        env.update(extra)
    return env


def _run_one(prop, ix, spec, outdir):
    spec_path = os.path.join(outdir, f'spec{ix}.json')
    out_path = os.path.join(outdir, f'out{ix}.json')
    with open(spec_path, 'w', encoding='utf-8') as fh:
        json.dump(spec, fh)
    timeout = spec.get('timeout', 1800)
    t0 = time.time()
    try:
        proc = subprocess.run([PYTHON, '-B', '-X', 'faulthandler', '-m', 'vf.shard', prop, spec_path, out_path],
                              env=shard_env(spec.get('env'), spec.get('seed', 0)), cwd=VERIF, timeout=timeout,
                              stdout=subprocess.PIPE, stderr=subprocess.PIPE, text=True, errors='replace')
    except subprocess.TimeoutExpired:
        return {'_status': 'timeout', '_wall': time.time() - t0, '_spec': spec}
    if proc.returncode != 0 or not os.path.exists(out_path):
        return {'_status': 'crash', '_rc': proc.returncode, '_stderr': proc.stderr[-3000:], '_stdout': proc.stdout[-1000:],
                '_wall': time.time() - t0, '_spec': spec}
    with open(out_path, 'r', encoding='utf-8') as fh:
        res = json.load(fh)
    res['_status'] = 'ok'
    res['_wall'] = time.time() - t0
    return res


def run_shards(prop, specs):
    outdir = os.path.join(SCRATCH, f'{prop}-{os.getpid()}')
    os.makedirs(outdir, exist_ok=True)
    try:
        with ThreadPoolExecutor(max_workers=NPROC) as pool:
            futs = [pool.submit(_run_one, prop, ix, spec, outdir) for ix, spec in enumerate(specs)]
            return [f.result() for f in futs]
    finally:
        for name in os.listdir(outdir):
            try:
                os.unlink(os.path.join(outdir, name))
            except OSError:
                pass
        try:
            os.rmdir(outdir)
        except OSError:
            pass


def merge(results):
    m = {'evaluations': 0, 'hashes': set(), 'hash_overflow': 0, 'violations': [], 'nviol': 0, 'known': {},
         'counters': {}, 'tables': {}, 'samples': [], 'inconclusive': [], 'timeouts': 0, 'bad_shards': []}
    for r in results:
        if r['_status'] != 'ok':
            m['bad_shards'].append({k: r.get(k) for k in ('_status', '_rc', '_stderr', '_stdout', '_spec')})
            continue
        m['evaluations'] += r['evaluations']
        m['hashes'].update(r['hashes'])
        m['hash_overflow'] += r.get('hash_overflow', 0)
        m['violations'].extend(r['violations'])
        m['nviol'] += r['nviol']
        for fid, ent in r['known'].items():
            e = m['known'].setdefault(fid, {'count': 0, 'example': ent['example']})
            e['count'] += ent['count']
        for k, v in r['counters'].items():
            m['counters'][k] = m['counters'].get(k, 0) + v
        for k, v in r['tables'].items():
            m['tables'].setdefault(k, set()).update(v)
        for s in r['samples']:
            if len(m['samples']) < 6:
                m['samples'].append(s)
        for why in r['inconclusive']:
            if why not in m['inconclusive']:
                m['inconclusive'].append(why)
        m['timeouts'] += r.get('timeouts', 0)
        for f, info in (r.get('reach') or {}).items():
            e = m.setdefault('reach', {}).setdefault(f, {'executed': set(), 'executable': info['executable']})
            e['executed'].update(info['executed'])
    return m


def write_evidence(prop, tier, seed, level, m, meta, wall, nviol):
    cov = {
        'evaluations': m['evaluations'],
        'distinct_nontrivial': len(m['hashes']),
        'rule': meta['rule'] + (f' (distinct count is conservative: {m["hash_overflow"]} further non-trivial cases were'
                                f' executed after a shard reached its {HASH_CAP}-hash cap and are not counted)'
                                if m['hash_overflow'] else ''),
        'samples': m['samples'] or [],
        'monitor_counters': dict(sorted(m['counters'].items())),
        'coverage_tables': {k: (sorted(v) if len(v) <= 60 else {'size': len(v), 'first': sorted(v)[:40]})
                            for k, v in sorted(m['tables'].items())},
        'known_findings_observed': {k: v for k, v in sorted(m['known'].items())},
        'case_timeouts_inconclusive': m['timeouts'],
        'shards_failed': len(m['bad_shards']),
    }
    if m.get('reach'):
        cov['code_reach'] = {f: f"{len(e['executed'])}/{e['executable']} statements" for f, e in sorted(m['reach'].items()) if e['executable']}
    if meta.get('exhaustive') is not None:
        cov['exhaustive'] = bool(meta['exhaustive'])
    if meta.get('extra'):
        cov.update(meta['extra'])
    ev = {
        'property_id': prop,
        'tier': tier,
        'seed': seed,
        'level': level,
        'coverage': cov,
        'assumptions': meta.get('assumptions', []),
        'wall_s': round(wall, 2),
        'violations': nviol,
    }
    os.makedirs(os.path.join(VERIF, 'evidence'), exist_ok=True)
    path = os.path.join(VERIF, 'evidence', f'{prop}.json')
    with open(path, 'w', encoding='utf-8') as fh:
        json.dump(ev, fh, indent=1, sort_keys=True, default=repr)
        fh.write('\n')
    return path


def load_check(prop):
    return importlib.import_module(f'vf.checks.{prop.lower()}')


def cold_reversed(kind, items, seed=0):
    """Results of applying `kind` to items in a FRESH child process that sees them in reversed order (returned in the
    original order), or None if the child failed (inconclusive, never a violation)."""
    os.makedirs(SCRATCH, exist_ok=True)
    path = os.path.join(SCRATCH, f'cold-{os.getpid()}-{kind}.json')
    with open(path, 'w', encoding='utf-8') as fh:
        json.dump(list(reversed(items)), fh)
    try:
        proc = subprocess.run([PYTHON, '-B', '-m', 'vf.coldrun', kind, path], env=shard_env(None, seed + 1), cwd=VERIF, timeout=900,
                              stdout=subprocess.PIPE, stderr=subprocess.PIPE, text=True)
        if proc.returncode != 0:
            return None
        return list(reversed(json.loads(proc.stdout)))
    finally:
        try:
            os.unlink(path)
        except OSError:
            pass
