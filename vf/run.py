"""Entry point: ./check <ID> <quick|thorough> | ./check <ID> --replay <file>"""
import json
import os
import sys
import time

sys.path.insert(0, os.path.dirname(os.path.dirname(os.path.abspath(__file__))))

from vf import core  # noqa: E402  pylint: disable=wrong-import-position


def main(argv):
    if len(argv) < 2:
        print('usage: check <ID> <quick|thorough> | check <ID> --replay <file>')
        return 64
    prop = argv[0].upper()
    core.ensure_deps()
    os.makedirs(core.SCRATCH, exist_ok=True)
    seed = int(os.environ.get('VERIF_SEED', '0') or 0)

    # Replay mode: one shard re-running exactly the stored case
    if argv[1] == '--replay':
        with open(argv[2], 'r', encoding='utf-8') as fh:
            payload = json.load(fh)
        spec = {'mode': 'replay', 'case': payload['case'], 'kind': payload.get('kind'), 'env': payload.get('env'), 'seed': seed}
        res = core.merge(core.run_shards(prop, [spec]))
        return report(prop, 'quick', seed, res, None, time.time(), write=False)

    tier = argv[1]
    if tier not in ('quick', 'thorough'):
        print('tier must be quick or thorough')
        return 64
    t0 = time.time()
    # The check modules import nothing from /repo at module level except inside shard functions
    sys.path.insert(1, core.REPO_SRC)
    sys.path.insert(2, core.DEPS)
    mod = core.load_check(prop)
    specs = mod.plan(tier, seed)
    for spec in specs:
        spec.setdefault('seed', seed)
        spec.setdefault('tier', tier)
        spec.setdefault('mode', 'run')
        # wall-clock watchdog per shard (firing = inconclusive): generous, so that a loaded machine does not turn a run inconclusive
        spec['timeout'] = max(spec.get('timeout', 0), 3600 if tier == 'quick' else 6 * 3600)
        if tier == 'quick' and os.environ.get('VERIF_REACH', '1') != '0':
            spec.setdefault('reach', True)
    res = core.merge(core.run_shards(prop, specs))
    return report(prop, tier, seed, res, mod, t0, write=True)


def report(prop, tier, seed, res, mod, t0, write):
    known_file = core.load_known()
    listed = {e['id']: e for e in known_file['findings'] if prop in e['properties']}
    nviol = 0
    lines = []

    # Known findings: a shard tags a disagreement with a finding id only when the mechanism classifier
    # re-derives the deviation; it is suppressed only if the committed file lists it with status "known".
    for fid, ent in sorted(res['known'].items()):
        e = listed.get(fid)
        if e is not None and e['status'] == 'known':
            lines.append(f'KNOWN-FINDING: property={prop} {fid} {e["mechanism"]} (observed {ent["count"]}x, e.g. {ent["example"]})')
        else:
            nviol += 1
            path = write_replay(prop, {'kind': f'finding-{fid}-not-listed', 'msg': ent['example'], 'case': {'finding': fid}})
            lines.append(f'VIOLATION property={prop} replay={path}')
            lines.append(f'  mechanism {fid} observed {ent["count"]}x but not listed as known: {ent["example"]}')

    for v in res['violations']:
        nviol += 1
        path = write_replay(prop, v)
        lines.append(f'VIOLATION property={prop} replay={path}')
        lines.append(f'  {v["kind"]}: {v["msg"][:600]}')
    extra = res['nviol'] - len(res['violations'])
    if extra > 0:
        lines.append(f'  (+{extra} further violating cases not written out)')
        nviol += extra

    inconclusive = list(res['inconclusive'])
    for b in res['bad_shards']:
        inconclusive.append(f'shard {b["_status"]}: rc={b.get("_rc")} {str(b.get("_stderr"))[-400:]}')
    if res['evaluations'] == 0:
        inconclusive.append('no case was executed')

    wall = time.time() - t0
    if write and mod is not None and not os.environ.get('VERIF_NOEVIDENCE'):
        meta = mod.meta(tier)
        if len(res['hashes']) < 2 and 'too few distinct non-trivial cases' not in inconclusive:
            inconclusive.append('too few distinct non-trivial cases')
        level = meta.get('level', 'exploration')
        meta.setdefault('extra', {})
        meta['extra']['verdict'] = 'violated' if nviol else ('inconclusive' if inconclusive else 'held-on-observed')
        if inconclusive:
            meta['extra']['inconclusive_reasons'] = inconclusive[:10]
        core.write_evidence(prop, tier, seed, level, res, meta, wall, nviol)

    for line in lines:
        print(line)
    c = res['counters']
    print(f'{prop} {tier} seed={seed}: evaluations={res["evaluations"]} distinct_nontrivial={len(res["hashes"])} '
          f'violations={nviol} known={sum(e["count"] for e in res["known"].values())} timeouts={res["timeouts"]} '
          f'wall={wall:.1f}s')
    if c:
        print('  monitors: ' + ', '.join(f'{k}={v}' for k, v in sorted(c.items())[:40]))
    if nviol:
        return 1
    if inconclusive:
        for why in inconclusive[:10]:
            print(f'INCONCLUSIVE property={prop} {why}')
        return 2
    return 0


def write_replay(prop, v):
    os.makedirs(os.path.join(core.VERIF, 'replays'), exist_ok=True)
    h = core.case_hash({'k': v['kind'], 'c': v['case']})
    path = os.path.join(core.VERIF, 'replays', f'{prop}-{h:015x}.json')
    with open(path, 'w', encoding='utf-8') as fh:
        json.dump({'property': prop, 'kind': v['kind'], 'msg': v['msg'], 'case': v['case'], 'env': v.get('env')},
                  fh, indent=1, default=repr)
    return path


if __name__ == '__main__':
    sys.exit(main(sys.argv[1:]))
