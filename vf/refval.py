"""Reference value layer, written from the language description; shares no code with /repo.

Values are plain Python objects: None, bool, int/float, str, datetime.date/datetime, list, dict,
callables, compiled regexes.
"""
import datetime
import json
import math
import re

REGEX = type(re.compile(''))


def rtype(v):
    if v is None:
        return 'null'
    if isinstance(v, str):
        return 'string'
    if isinstance(v, bool):
        return 'boolean'
    if isinstance(v, (int, float)):
        return 'number'
    if isinstance(v, datetime.date):
        return 'datetime'
    if isinstance(v, dict):
        return 'object'
    if isinstance(v, list):
        return 'array'
    if isinstance(v, REGEX):
        return 'regex'
    if callable(v):
        return 'function'
    return None


def isnum(v):
    return isinstance(v, (int, float)) and not isinstance(v, bool)


def truthy(v):
    t = rtype(v)
    if t == 'null':
        return False
    if t == 'string':
        return v != ''
    if t == 'boolean':
        return v
    if t == 'number':
        return v != 0
    if t == 'array':
        return len(v) != 0
    return True


def ndt(v):
    """Datetime normalisation: dates are midnight, aware datetimes are converted to local naive."""
    if isinstance(v, datetime.datetime):
        return v.astimezone().replace(tzinfo=None) if v.tzinfo is not None else v
    return datetime.datetime(v.year, v.month, v.day)


def sign(x):
    return (x > 0) - (x < 0)


def rcmp(a, b):
    """Total preorder: null first; same type natural; arrays/objects element-wise; else by type name."""
    ta, tb = rtype(a), rtype(b)
    if ta == 'null':
        return 0 if tb == 'null' else -1
    if tb == 'null':
        return 1
    if ta != tb:
        na, nb = ta or 'unknown', tb or 'unknown'
        return -1 if na < nb else (1 if na > nb else 0)
    if ta in ('string', 'boolean', 'number'):
        return (a > b) - (a < b)
    if ta == 'datetime':
        a, b = ndt(a), ndt(b)
        return (a > b) - (a < b)
    if ta == 'array':
        for x, y in zip(a, b):
            c = rcmp(x, y)
            if c:
                return c
        return sign(len(a) - len(b))
    if ta == 'object':
        ka, kb = sorted(a), sorted(b)
        for x, y in zip(ka, kb):
            if x != y:
                return -1 if x < y else 1
            c = rcmp(a[x], b[y])
            if c:
                return c
        return sign(len(ka) - len(kb))
    return 0


def numtext(v):
    if isinstance(v, int):
        return str(v)
    s = repr(v)
    return s[:-2] if s.endswith('.0') else s


def dttext(v):
    d = ndt(v)
    off = d.astimezone().utcoffset()
    tot = off.days * 86400 + off.seconds
    sgn = '+' if tot >= 0 else '-'
    tot = abs(tot)
    s = f'{d.year:04d}-{d.month:02d}-{d.day:02d}T{d.hour:02d}:{d.minute:02d}:{d.second:02d}'
    if d.microsecond:
        s += f'.{d.microsecond // 1000:03d}'
    return s + f'{sgn}{tot // 3600:02d}:{tot % 3600 // 60:02d}'


def jtext(v, indent=None, _lvl=0):
    """Reference JSON text: sorted keys, compact separators (or indent), integral numbers without fraction."""
    t = rtype(v)
    if t == 'null':
        return 'null'
    if t == 'boolean':
        return 'true' if v else 'false'
    if t == 'number':
        if isinstance(v, float) and (math.isnan(v) or math.isinf(v)):
            raise ValueError('non-finite')
        return numtext(v)
    if t == 'string':
        return json.dumps(v)
    if t == 'datetime':
        return json.dumps(dttext(v))
    if t == 'function':
        return '"<function>"'
    if t == 'array':
        if not v:
            return '[]'
        if indent:
            pad = '\n' + ' ' * (indent * (_lvl + 1))
            return '[' + ','.join(pad + jtext(x, indent, _lvl + 1) for x in v) + '\n' + ' ' * (indent * _lvl) + ']'
        return '[' + ','.join(jtext(x) for x in v) + ']'
    if t == 'object':
        if not v:
            return '{}'
        keys = sorted(v)
        if indent:
            pad = '\n' + ' ' * (indent * (_lvl + 1))
            return '{' + ','.join(pad + json.dumps(k) + ': ' + jtext(v[k], indent, _lvl + 1) for k in keys) + \
                '\n' + ' ' * (indent * _lvl) + '}'
        return '{' + ','.join(json.dumps(k) + ':' + jtext(v[k]) for k in keys) + '}'
    return 'null'


def rstr(v):
    t = rtype(v)
    if t == 'null':
        return 'null'
    if t == 'string':
        return v
    if t == 'boolean':
        return 'true' if v else 'false'
    if t == 'number':
        return numtext(v)
    if t == 'datetime':
        return dttext(v)
    if t in ('array', 'object'):
        return jtext(v)
    if t == 'function':
        return '<function>'
    if t == 'regex':
        return '<regex>'
    return '<unknown>'


def veq(x, y):
    """BareScript equality used to compare real and reference results (int 2 == float 2.0, NaN == NaN,
    functions/regexes by identity-or-kind)."""
    if isinstance(x, float) and isinstance(y, float) and math.isnan(x) and math.isnan(y):
        return True
    tx, ty = rtype(x), rtype(y)
    if tx != ty:
        return False
    if tx in ('function', 'regex'):
        return True
    if tx == 'array':
        return len(x) == len(y) and all(veq(p, q) for p, q in zip(x, y))
    if tx == 'object':
        return sorted(x) == sorted(y) and all(veq(x[k], y[k]) for k in x)
    if tx == 'number':
        return x == y
    return rcmp(x, y) == 0


def canon(v, depth=0):
    """JSON-able canonical form of a value for hashing / reporting."""
    t = rtype(v)
    if t in ('null', 'boolean', 'string'):
        return v
    if t == 'number':
        if isinstance(v, float):
            if math.isnan(v) or math.isinf(v):
                return {'$f': repr(v)}
            if v == int(v) and abs(v) < 1e15 and not (v == 0 and math.copysign(1, v) < 0):
                return int(v)
            return v
        return v if abs(v) < 2 ** 63 else {'$big': str(v)}
    if t == 'datetime':
        return {'$dt': v.isoformat()}
    if t == 'array':
        return [canon(x, depth + 1) for x in v] if depth < 20 else '...'
    if t == 'object':
        return {str(k): canon(x, depth + 1) for k, x in sorted(v.items(), key=lambda kv: str(kv[0]))} if depth < 20 else '...'
    if t == 'function':
        return {'$fn': 1}
    if t == 'regex':
        return {'$re': v.pattern}
    return {'$unknown': type(v).__name__}


def uncanon(c):
    """Inverse of canon for replay payloads (functions become a marker callable)."""
    if isinstance(c, list):
        return [uncanon(x) for x in c]
    if isinstance(c, dict):
        if '$f' in c:
            return float(c['$f'])
        if '$big' in c:
            return int(c['$big'])
        if '$dt' in c:
            s = c['$dt']
            return datetime.datetime.fromisoformat(s) if 'T' in s else datetime.date.fromisoformat(s)
        if '$fn' in c:
            return _marker_fn
        if '$re' in c:
            return re.compile(c['$re'])
        if '$flt' in c:
            return float(c['$flt'])
        return {k: uncanon(x) for k, x in c.items()}
    return c


def _marker_fn(args, options):  # pylint: disable=unused-argument
    return float(len(args))


def is_value(v, depth=0):
    """True if v is one of the nine BareScript value types (recursively)."""
    t = rtype(v)
    if t is None:
        return False
    if isinstance(v, complex):
        return False
    if depth > 30:
        return True
    if t == 'array':
        return all(is_value(x, depth + 1) for x in v)
    if t == 'object':
        return all(isinstance(k, str) and is_value(x, depth + 1) for k, x in v.items())
    return True


# ------------------------------------------------------------------ exact (type-preserving) encoding for replay payloads
_FN_REGISTRY = {}


def register_fn(name, fn):
    _FN_REGISTRY[name] = fn
    return fn


def enc(v):
    t = rtype(v)
    if t in ('null', 'boolean', 'string'):
        return v
    if t == 'number':
        if isinstance(v, float):
            return {'$flt': repr(v)}
        return v if abs(v) < 2 ** 53 else {'$big': str(v)}
    if t == 'datetime':
        if isinstance(v, datetime.datetime):
            return {'$dt': v.isoformat()}
        return {'$dt': v.isoformat()}
    if t == 'array':
        return [enc(x) for x in v]
    if t == 'object':
        return {'$obj': [[k, enc(x)] for k, x in v.items()]}
    if t == 'function':
        for name, fn in _FN_REGISTRY.items():
            if fn is v:
                return {'$fn': name}
        return {'$fn': getattr(v, '__name__', '?')}
    if t == 'regex':
        return {'$re': v.pattern, '$flags': v.flags}
    return {'$unknown': type(v).__name__}


def dec(c):
    if isinstance(c, list):
        return [dec(x) for x in c]
    if isinstance(c, dict):
        if '$flt' in c:
            return float(c['$flt'])
        if '$big' in c:
            return int(c['$big'])
        if '$dt' in c:
            s = c['$dt']
            return datetime.datetime.fromisoformat(s) if 'T' in s else datetime.date.fromisoformat(s)
        if '$obj' in c:
            return {k: dec(x) for k, x in c['$obj']}
        if '$fn' in c:
            return _FN_REGISTRY.get(c['$fn'], _marker_fn)
        if '$re' in c:
            return re.compile(c['$re'], c.get('$flags', 0) & ~re.UNICODE & 0xFFFF or 0)
        raise ValueError(c)
    return c


# ------------------------------------------------------------------ wording-independent comparison of messages
_QUOTED = re.compile(r'"([^"]*)"')


def norm_error(msg):
    """Runtime-error messages are compared by what the properties pin: the kind and the names/locations they carry,
    not the exact wording (so that rewording a message is never an alarm)."""
    if not isinstance(msg, str):
        return msg
    names = tuple(_QUOTED.findall(msg))
    if msg.startswith('Exceeded maximum script statements'):
        return 'EXCEEDED'
    if 'nknown jump label' in msg:
        return ('UNKNOWN-LABEL',) + names
    if 'ndefined function' in msg:
        return ('UNDEFINED-FUNCTION',) + names
    return msg


def norm_log(line):
    """Debug-mode diagnostics of the runtime ("BareScript: ...") are compared by position and by the names they quote."""
    if isinstance(line, str) and line.startswith('BareScript:'):
        return ('BareScript-debug',) + tuple(_QUOTED.findall(line))[:1]
    return line
