"""Contract layer: post-conditions on the real functions, installed by rebinding the name in every
importing module (so internal call sites are intercepted too).

Conditions *record* a violation and return True instead of raising: the real call wrapper swallows
every exception that is not a BareScriptRuntimeError, so a raising contract would be turned into
`null` by the code under observation. Each contract counts its evaluations; a deciding contract with
zero evaluations makes the run inconclusive.
"""
import json

try:
    import icontract
    HAVE_ICONTRACT = True
except Exception:  # pylint: disable=broad-except
    icontract = None
    HAVE_ICONTRACT = False

from . import refval


def _ensure(cond):
    """icontract.ensure with a named condition; falls back to a 10-line equivalent if the wheel is missing."""
    if HAVE_ICONTRACT:
        return icontract.ensure(cond)
    import functools
    import inspect
    names = list(inspect.signature(cond).parameters)

    def deco(fn):
        sig = inspect.signature(fn)

        @functools.wraps(fn)
        def wrapper(*a, **kw):
            result = fn(*a, **kw)
            bound = sig.bind(*a, **kw)
            bound.apply_defaults()
            env = dict(bound.arguments)
            env['result'] = result
            cond(**{n: env[n] for n in names})
            return result
        return wrapper
    return deco


class Contracts:
    def __init__(self):
        self.violations = []  # (property, kind, detail)
        self.evals = {}
        self.installed = []
        self._depth_cmp = 0
        self._depth_json = 0
        self._orig = {}

    def _count(self, name):
        self.evals[name] = self.evals.get(name, 0) + 1

    def record(self, prop, kind, detail):
        if len(self.violations) < 200:
            self.violations.append((prop, kind, str(detail)[:1500]))

    def drain(self):
        v, self.violations = self.violations, []
        return v

    # ------------------------------------------------------------------ install
    def install(self, which):
        import bare_script
        from bare_script import data, library, model, parser, runtime, value
        mods = [bare_script, runtime, library, data, value, parser, model]
        try:
            from bare_script import bare
            mods.append(bare)
        except Exception:  # pylint: disable=broad-except
            pass

        def rebind(name, new):
            for m in mods:
                if getattr(m, name, None) is self._orig[name]:
                    setattr(m, name, new)

        if 'value_compare' in which:
            orig_cmp = value.value_compare
            self._orig['value_compare'] = orig_cmp

            def cmp_post(left, right, result):
                if self._depth_cmp > 1:
                    return True
                self._count('value_compare')
                if result not in (-1, 0, 1) or isinstance(result, bool):
                    self.record('C11', 'compare-range', f'value_compare({left!r},{right!r}) = {result!r}')
                else:
                    self._depth_cmp += 5
                    try:
                        back = orig_cmp(right, left)
                    except Exception as exc:  # pylint: disable=broad-except
                        back = repr(exc)
                    finally:
                        self._depth_cmp -= 5
                    if back != -result and not _has_nan(left) and not _has_nan(right):
                        self.record('C11', 'compare-antisymmetry',
                                    f'cmp({left!r},{right!r})={result} but cmp({right!r},{left!r})={back}')
                return True

            checked_cmp = _ensure(cmp_post)(orig_cmp)

            def value_compare(left, right):
                self._depth_cmp += 1
                try:
                    return checked_cmp(left, right)
                finally:
                    self._depth_cmp -= 1
            rebind('value_compare', value_compare)
            self.installed.append('value_compare')

        if 'parse_script' in which:
            orig_ps = parser.parse_script
            self._orig['parse_script'] = orig_ps
            perr = parser.BareScriptParserError

            def parse_post(script_text, start_line_number, result):  # pylint: disable=unused-argument
                self._count('parse_script_post')
                problems = model_wellformed(result, model)
                for p in problems:
                    self.record('C07', 'lowered-model', p)
                return True

            checked_ps = _ensure(parse_post)(orig_ps)

            def parse_script(script_text, start_line_number=1):
                if not isinstance(script_text, str):
                    script_text = list(script_text)
                try:
                    return checked_ps(script_text, start_line_number)
                except perr:
                    self._count('parse_script_rejects')
                    raise
                except Exception as exc:  # pylint: disable=broad-except
                    self.record('C06', 'parser-totality', f'{type(exc).__name__}: {exc} on {script_text!r}'[:600])
                    raise
            rebind('parse_script', parse_script)
            self.installed.append('parse_script')

        if 'evaluate_expression' in which:
            orig_ee = runtime.evaluate_expression
            self._orig['evaluate_expression'] = orig_ee

            def eval_post(expr, options, locals_, builtins, result):  # pylint: disable=unused-argument
                self._count('evaluate_expression')
                if refval.rtype(result) is None or isinstance(result, complex):
                    self.record('C05', 'non-value-result', f'{type(result).__name__} {result!r} from {json.dumps(expr, default=repr)[:300]}')
                return True

            checked_ee = _ensure(eval_post)(orig_ee)

            def evaluate_expression(expr, options=None, locals_=None, builtins=True):
                return checked_ee(expr, options, locals_, builtins)
            rebind('evaluate_expression', evaluate_expression)
            data._EVALUATE_EXPRESSION.clear()  # pylint: disable=protected-access
            self.installed.append('evaluate_expression')

        if 'value_json' in which:
            orig_vj = value.value_json
            self._orig['value_json'] = orig_vj

            def json_post(value, indent, result):  # pylint: disable=redefined-outer-name
                if self._depth_json > 1:
                    return True
                if not _json_domain(value):
                    return True
                self._count('value_json')
                try:
                    back = json.loads(result)
                except Exception as exc:  # pylint: disable=broad-except
                    self.record('C14', 'json-invalid', f'{result!r}: {exc}')
                    return True
                if not refval.veq(back, value):
                    self.record('C14', 'json-roundtrip', f'value {value!r} -> text {result!r} -> {back!r}')
                return True

            checked_vj = _ensure(json_post)(orig_vj)

            def value_json(value, indent=None):  # pylint: disable=redefined-outer-name
                self._depth_json += 1
                try:
                    return checked_vj(value, indent)
                finally:
                    self._depth_json -= 1
            rebind('value_json', value_json)
            self.installed.append('value_json')

        if 'lint_script' in which:
            orig_ls = model.lint_script
            self._orig['lint_script'] = orig_ls

            def lint_script(script):
                self._count('lint_script')
                before = json.dumps(script, sort_keys=True, default=repr)
                try:
                    result = orig_ls(script)
                except Exception as exc:  # pylint: disable=broad-except
                    self.record('C18', 'lint-raised', f'{type(exc).__name__}: {exc}')
                    raise
                if json.dumps(script, sort_keys=True, default=repr) != before:
                    self.record('C18', 'lint-mutated-model', before[:300])
                if not isinstance(result, list) or not all(isinstance(w, str) for w in result):
                    self.record('C18', 'lint-result-type', repr(result)[:300])
                else:
                    again = orig_ls(script)
                    if again != result:
                        self.record('C18', 'lint-nondeterministic', f'{result!r} vs {again!r}'[:600])
                return result
            rebind('lint_script', lint_script)
            self.installed.append('lint_script')
        return self


def _has_nan(v, depth=0):
    if isinstance(v, float):
        return v != v
    if depth > 20:
        return False
    if isinstance(v, list):
        return any(_has_nan(x, depth + 1) for x in v)
    if isinstance(v, dict):
        return any(_has_nan(x, depth + 1) for x in v.values())
    return False


def _json_domain(v, depth=0):
    if v is None or isinstance(v, (bool, str)):
        if isinstance(v, str):
            try:
                v.encode('utf-8')
            except UnicodeEncodeError:
                return True  # lone surrogates are still strings; json handles them via \\ud800 escapes
        return True
    if isinstance(v, (int, float)):
        return v == v and v not in (float('inf'), float('-inf'))
    if depth > 40:
        return False
    if isinstance(v, list):
        return all(_json_domain(x, depth + 1) for x in v)
    if isinstance(v, dict):
        return all(isinstance(k, str) and _json_domain(x, depth + 1) for k, x in v.items())
    return False


GEN_PREFIX = '__bareScript'


def scope_label_problems(statements, where):
    """C07 facts for one scope: every jump to a generated label targets a label defined exactly once in
    this scope; every generated label is the target of at least one jump."""
    problems = []
    defs = {}
    uses = {}
    for st in statements:
        (k, v), = st.items()
        if k == 'label':
            defs[v] = defs.get(v, 0) + 1
        elif k == 'jump':
            uses[v['label']] = uses.get(v['label'], 0) + 1
    for lab, n in uses.items():
        if lab.startswith(GEN_PREFIX):
            d = defs.get(lab, 0)
            if d != 1:
                problems.append(f'{where}: jump to generated label {lab} which is defined {d} times in this scope')
    for lab, n in defs.items():
        if lab.startswith(GEN_PREFIX):
            if n != 1:
                problems.append(f'{where}: generated label {lab} defined {n} times')
            if lab not in uses:
                problems.append(f'{where}: generated label {lab} is never targeted')
    return problems


def model_wellformed(script, model_mod):
    problems = []
    try:
        model_mod.validate_script(script)
    except Exception as exc:  # pylint: disable=broad-except
        problems.append(f'schema: {type(exc).__name__}: {str(exc)[:300]}')
        return problems
    problems += scope_label_problems(script['statements'], 'global')
    for st in script['statements']:
        if 'function' in st:
            problems += scope_label_problems(st['function']['statements'], f'function {st["function"]["name"]}')
    return problems
