"""RefSeq / RefMap / RefStr: Python list / dict / str models of the array*, object* and string* library functions with
the documented argument domains and failure values. Written from the library documentation; shares no code with /repo.

model_call(name, args) returns the result, mutates the passed containers in place, raises Bad for a documented
failure (BadWith carries objectGet's default). ('ANY',) marks results the documentation leaves open.
BOOL_NUM[0] = True switches on the variant used only to classify finding F14 (booleans accepted as numbers)."""
import functools
import json
import re

BOOL_NUM = [False]

FAIL={'arrayIndexOf':-1,'arrayLastIndexOf':-1,'arrayLength':0,'objectHas':False,'stringIndexOf':-1,'stringLastIndexOf':-1,'stringLength':0}
class Bad(Exception): pass
def isnum(x): return isinstance(x,(int,float)) and (BOOL_NUM[0] or not isinstance(x,bool))
def isint(x): return isnum(x) and float(x).is_integer()
def cmpv(a,b):
    # reference compare restricted to JSON-ish values
    def ty(v):
        if v is None: return 'null'
        if isinstance(v,bool): return 'boolean'
        if isnum(v): return 'number'
        if isinstance(v,str): return 'string'
        if isinstance(v,list): return 'array'
        if isinstance(v,dict): return 'object'
    if a is None: return 0 if b is None else -1
    if b is None: return 1
    ta,tb=ty(a),ty(b)
    if ta!=tb: return -1 if ta<tb else 1
    if ta in('boolean','number','string'): return (a>b)-(a<b)
    if ta=='array':
        for x,y in zip(a,b):
            c=cmpv(x,y)
            if c: return c
        return (len(a)>len(b))-(len(a)<len(b))
    ka=sorted(a.items()); kb=sorted(b.items())
    for (k1,v1),(k2,v2) in zip(ka,kb):
        if k1!=k2: return -1 if k1<k2 else 1
        c=cmpv(v1,v2)
        if c: return c
    return (len(ka)>len(kb))-(len(ka)<len(kb))
def need(c):
    if not c: raise Bad()
def A(x): need(isinstance(x,list)); return x
def O(x): need(isinstance(x,dict)); return x
def S(x): need(isinstance(x,str)); return x
def I(x,lo=0,hi=None):
    need(isint(x) and x>=lo and (hi is None or x<hi)); return int(x)
def nargs(args,lo,hi): need(lo<=len(args)<=hi)
def tostr(v):
    if v is None: return 'null'
    if isinstance(v,bool): return 'true' if v else 'false'
    if isnum(v):
        s=repr(float(v)); return s[:-2] if s.endswith('.0') else s
    if isinstance(v,str): return v
    return jtext(v)
def jtext(v):
    def conv(x):
        if isinstance(x,bool) or x is None or isinstance(x,str): return x
        if isnum(x): return int(x) if float(x).is_integer() and abs(x)<1e15 else x
        if isinstance(x,list): return [conv(y) for y in x]
        return {k:conv(y) for k,y in x.items()}
    return json.dumps(conv(v),sort_keys=True,separators=(',',':'))
MISSING=object()
def get(args,i,default=None,nullable=False):
    if i>=len(args): return default
    if args[i] is None:
        if nullable: return default
        raise Bad()
    return args[i]
def model_call(name,args):
    """returns result; mutates args' containers in place; raises Bad for documented failure"""
    a=args
    if name=='arrayCopy': nargs(a,1,1); return list(A(a[0]))
    if name=='arrayDelete': nargs(a,2,2); arr=A(a[0]); i=I(a[1],0,len(arr)); del arr[i]; return ('ANY',)
    if name=='arrayExtend': nargs(a,2,2); arr=A(a[0]); b=A(a[1]); arr.extend(list(b)); return arr
    if name=='arrayGet': nargs(a,2,2); arr=A(a[0]); return arr[I(a[1],0,len(arr))]
    if name=='arrayIndexOf':
        nargs(a,2,3); arr=A(a[0]); i=I(get(a,2,0),0,len(arr))
        return next((k for k in range(i,len(arr)) if cmpv(arr[k],a[1])==0),-1)
    if name=='arrayJoin': nargs(a,2,2); return S(a[1]).join(tostr(v) for v in A(a[0]))
    if name=='arrayLastIndexOf':
        nargs(a,2,3); arr=A(a[0]); 
        if get(a,2,None,True) is None: i=len(arr)-1
        else: i=I(a[2],0,len(arr))
        return next((k for k in range(i,-1,-1) if cmpv(arr[k],a[1])==0),-1)
    if name=='arrayLength': nargs(a,1,1); return len(A(a[0]))
    if name=='arrayNew': return list(a)
    if name=='arrayNewSize':
        nargs(a,0,2); n=I(get(a,0,0)); v=(a[1] if len(a)>1 else 0); return [v for _ in range(n)]
    if name=='arrayPop': nargs(a,1,1); arr=A(a[0]); need(len(arr)>0); return arr.pop()
    if name=='arrayPush': need(len(a)>=1); arr=A(a[0]); arr.extend(a[1:]); return arr
    if name=='arraySet': nargs(a,2,3); arr=A(a[0]); i=I(a[1],0,len(arr)); v=a[2] if len(a)>2 else None; arr[i]=v; return v
    if name=='arrayShift': nargs(a,1,1); arr=A(a[0]); need(len(arr)>0); return arr.pop(0)
    if name=='arraySlice':
        nargs(a,1,3); arr=A(a[0]); s=I(get(a,1,0),0,len(arr)+1); e=len(arr) if get(a,2,None,True) is None else I(a[2],0,len(arr)+1)
        return arr[s:e]
    if name=='arraySort':
        nargs(a,1,2); arr=A(a[0]); need(get(a,1,None,True) is None)
        arr.sort(key=functools.cmp_to_key(cmpv)); return arr
    if name=='objectAssign': nargs(a,2,2); o=O(a[0]); o.update(O(a[1])); return o
    if name=='objectCopy': nargs(a,1,1); return dict(O(a[0]))
    if name=='objectDelete': nargs(a,2,2); o=O(a[0]); k=S(a[1]); o.pop(k,None); return None
    if name=='objectGet':
        if not (2<=len(a)<=3 and isinstance(a[0],dict) and isinstance(a[1],str)): raise BadWith(a[2] if len(a)>=3 else None)
        return a[0].get(a[1], a[2] if len(a)>2 else None)
    if name=='objectHas': nargs(a,2,2); return S(a[1]) in O(a[0])
    if name=='objectKeys': nargs(a,1,1); return list(O(a[0]).keys())
    if name=='objectNew':
        o={}
        for k in range(0,len(a),2):
            need(isinstance(a[k],str)); o[a[k]]=a[k+1] if k+1<len(a) else None
        return o
    if name=='objectSet': nargs(a,2,3); o=O(a[0]); k=S(a[1]); v=a[2] if len(a)>2 else None; o[k]=v; return v
    if name=='stringCharCodeAt': nargs(a,2,2); s=S(a[0]); return ord(s[I(a[1],0,len(s))])
    if name=='stringEndsWith': nargs(a,2,2); return S(a[0]).endswith(S(a[1]))
    if name=='stringIndexOf':
        nargs(a,2,3); s=S(a[0]); q=S(a[1]); i=I(get(a,2,0),0,len(s))
        if q=='': return ('ANY',)
        return s.find(q,i)
    if name=='stringLastIndexOf':
        nargs(a,2,3); s=S(a[0]); q=S(a[1])
        i=len(s)-1 if get(a,2,None,True) is None else I(a[2],0,len(s))
        if q=='' or s=='': return ('ANY',)
        return next((k for k in range(min(i,len(s)-len(q)),-1,-1) if s[k:k+len(q)]==q),-1)
    if name=='stringLength': nargs(a,1,1); return len(S(a[0]))
    if name=='stringLower': nargs(a,1,1); return S(a[0]).lower()
    if name=='stringUpper': nargs(a,1,1); return S(a[0]).upper()
    if name=='stringNew': nargs(a,0,1); return tostr(a[0] if a else None)
    if name=='stringRepeat': nargs(a,2,2); return S(a[0])*I(a[1])
    if name=='stringReplace':
        nargs(a,3,3); s,x,y=S(a[0]),S(a[1]),S(a[2])
        if x=='': return ('ANY',)
        return s.replace(x,y)
    if name=='stringSlice':
        nargs(a,2,3); s=S(a[0]); st=I(a[1],0,len(s)+1); e=len(s) if get(a,2,None,True) is None else I(a[2],0,len(s)+1); return s[st:e]
    if name=='stringSplit':
        nargs(a,2,2); s,sep=S(a[0]),S(a[1])
        if sep=='': return ('ANY',)
        return s.split(sep)
    if name=='stringStartsWith': nargs(a,2,2); return S(a[0]).startswith(S(a[1]))
    if name=='stringTrim': nargs(a,1,1); return S(a[0]).strip(' \t\n\r')
    if name=='stringFromCharCode':
        for c in a: need(not isinstance(c,bool) and isint(c) and 0<=c<0x110000 and not (0xD800<=c<0xE000))  # (booleans are rejected here even on the pinned tree)
        return ''.join(chr(int(c)) for c in a)
    raise KeyError(name)
class BadWith(Bad):
    def __init__(s,v): s.v=v
NAMES=['arrayCopy','arrayDelete','arrayExtend','arrayGet','arrayIndexOf','arrayJoin','arrayLastIndexOf','arrayLength','arrayNew','arrayNewSize','arrayPop','arrayPush','arraySet','arrayShift','arraySlice','arraySort','objectAssign','objectCopy','objectDelete','objectGet','objectHas','objectKeys','objectNew','objectSet','stringCharCodeAt','stringEndsWith','stringIndexOf','stringLastIndexOf','stringLength','stringLower','stringUpper','stringNew','stringRepeat','stringReplace','stringSlice','stringSplit','stringStartsWith','stringTrim','stringFromCharCode']
SIG={'arrayCopy':'A','arrayDelete':'Ai','arrayExtend':'AA','arrayGet':'Ai','arrayIndexOf':'Avi?','arrayJoin':'As','arrayLastIndexOf':'Avi?','arrayLength':'A','arrayNew':'v*','arrayNewSize':'n?v?','arrayPop':'A','arrayPush':'Av*','arraySet':'Aiv','arrayShift':'A','arraySlice':'Ai?i?','arraySort':'A','objectAssign':'OO','objectCopy':'O','objectDelete':'Ok','objectGet':'Okv?','objectHas':'Ok','objectKeys':'O','objectNew':'kvkv','objectSet':'Okv','stringCharCodeAt':'si','stringEndsWith':'ss','stringIndexOf':'ssi?','stringLastIndexOf':'ssi?','stringLength':'s','stringLower':'s','stringUpper':'s','stringNew':'v','stringRepeat':'sn','stringReplace':'sss','stringSlice':'sii?','stringSplit':'ss','stringStartsWith':'ss','stringTrim':'s','stringFromCharCode':'c*'}

