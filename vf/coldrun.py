"""Child process used by the order/state monitors: applies one API function to a list of inputs in the order given and
prints the results as JSON. Comparing a fresh process that sees the inputs in REVERSED order with the warm parent exposes
state kept between calls (caches keyed too coarsely, "first call decides" tables)."""
import json
import sys

from vf import refval


def main():
    kind, path = sys.argv[1], sys.argv[2]
    with open(path, 'r', encoding='utf-8') as fh:
        items = json.load(fh)
    out = []
    if kind == 'parse_expression':
        from bare_script.parser import parse_expression
        for t in items:
            try:
                out.append(['ok', parse_expression(t)])
            except Exception as exc:  # pylint: disable=broad-except
                out.append(['err', type(exc).__name__, getattr(exc, 'column_number', None)])
    elif kind == 'parse_script':
        from bare_script.parser import parse_script
        for t in items:
            try:
                out.append(['ok', parse_script(t)])
            except Exception as exc:  # pylint: disable=broad-except
                out.append(['err', type(exc).__name__, getattr(exc, 'line_number', None), getattr(exc, 'column_number', None)])
    elif kind in ('value_string', 'value_json', 'json_roundtrip'):
        from bare_script.library import SCRIPT_FUNCTIONS
        from bare_script.value import value_json, value_string
        for e in items:
            v = refval.dec(e)
            try:
                if kind == 'value_string':
                    out.append(['ok', value_string(v)])
                elif kind == 'value_json':
                    out.append(['ok', value_json(v)])
                else:
                    t = value_json(v)
                    back = SCRIPT_FUNCTIONS['jsonParse']([t], None)
                    out.append(['ok', t, refval.enc(back)])
            except Exception as exc:  # pylint: disable=broad-except
                out.append(['err', type(exc).__name__])
    json.dump(out, sys.stdout)


if __name__ == '__main__':
    main()
