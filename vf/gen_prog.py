"""Structured-program generators: random grammar-based programs and exhaustive nesting shapes."""
import datetime
import itertools
import re


def N(x):
    return {'number': float(x)}


def S(x):
    return {'string': x}


def V(x):
    return {'variable': x}


def C(name, *args):
    return {'function': {'name': name, 'args': list(args)}}


def B(op, l, r):
    return {'binary': {'op': op, 'left': l, 'right': r}}


def U(op, e):
    return {'unary': {'op': op, 'expr': e}}


def LOG(tag, *exprs):
    return ['expr', C('systemLog', B('+', S(tag + ':'), C('jsonStringify', C('arrayNew', *exprs))))]


def host_hp(args, options):
    """Identity probe: logs its tag (evaluation order / exactly-once / laziness become log events)."""
    log = options.get('logFn') if options is not None else None
    if log is not None:
        log('probe ' + str(args[0] if args else None))
    return args[1] if len(args) > 1 else None


def host_fn(args, options):  # pylint: disable=unused-argument
    return float(len(args))


def make_nx(pattern):
    """Stateful host condition source: returns successive pattern values (cyclic) and logs each draw."""
    state = [0]

    def nx(args, options):  # pylint: disable=unused-argument
        v = pattern[state[0] % len(pattern)]
        state[0] += 1
        log = options.get('logFn') if options is not None else None
        if log is not None:
            log(f'nx{state[0]}={v}')
        return v
    return nx


TZ = datetime.timezone

INIT_POOL = [
    None, True, False, 0.0, 1.0, 2.0, -1.0, 2.5, 3, 0, '', 'a', 'ab', '1',
    datetime.datetime(2020, 1, 2, 3, 4, 5), datetime.date(2021, 6, 7), datetime.datetime(2020, 6, 1, 12, tzinfo=TZ.utc),
    [], [1.0, 2.0, 3.0], ['a', None, [1.0]], {}, {'a': 1.0}, {'b': [1.0, 'x'], 'a': None},
    host_fn, re.compile('a+'),
]


def init_values(rnd, names, p_num=0.5):
    out = {}
    for n in names:
        if rnd.random() < p_num:
            out[n] = float(rnd.randint(0, 3))
        else:
            out[n] = rnd.choice(INIT_POOL)
    return out


class ProgGen:
    """Random structured programs. Termination by construction: while loops are driven by fresh counters
    incremented as the first body statement; for loops walk array literals / once-evaluated values."""

    def __init__(self, rnd, maxdepth=5, nfuncs=None, p_while_continue=0.15, probes=True, vars_=('va', 'vb', 'vc', 'vd'), typed=False):
        # typed=True keeps booleans out of arithmetic (va, vb numeric; vc, vd boolean) so finding F14 cannot interfere
        self.typed = typed
        self.late_defs = False
        self.expr_stmts = False
        self.shadow_params = False
        self.boolvars = {'vc', 'vd'} if typed else set()
        self.r = rnd
        self.maxdepth = maxdepth
        self.nloop = 0
        self.tag = 0
        self.funcs = []  # (name, nparams)
        self.vars = list(vars_)
        self.nfuncs = nfuncs
        self.p_wc = p_while_continue
        self.probes = probes
        self.features = set()

    # ---- expressions (the "safe" subset: + - * comparisons logic, small ints, short strings)
    def expr(self, scope, d=0):
        """Any-typed expression; arithmetic operands are drawn from numeric-ish expressions so that finding F14
        (booleans in arithmetic) does not dominate the workload."""
        r = self.r
        x = r.random()
        if d > 2 or x < 0.45:
            return self.num(scope, d)
        if x < 0.5:
            return S(r.choice(['a', 'b', '']))
        if x < 0.58:
            return B('+', S(r.choice(['a', 'q'])), self.num(scope, d + 1))
        if x < 0.78:
            return B(r.choice(['<', '<=', '==', '!=', '>', '>=']), self.num(scope, d + 1), self.num(scope, d + 1))
        if x < 0.92:
            return B(r.choice(['&&', '||']), self.expr(scope, d + 1), self.expr(scope, d + 1))
        if x < 0.96:
            return U('!', self.expr(scope, d + 1))
        if self.typed:
            return V(r.choice(sorted(self.boolvars)))
        return B(r.choice(['+', '-', '*']), self.expr(scope, d + 1), self.expr(scope, d + 1))

    def boolexpr(self, scope, d=0):
        r = self.r
        x = r.random()
        if d > 2 or x < 0.6:
            return B(r.choice(['<', '<=', '==', '!=', '>', '>=']), self.num(scope, d + 1), self.num(scope, d + 1))
        if x < 0.8:
            return B(r.choice(['&&', '||']), self.boolexpr(scope, d + 1), self.boolexpr(scope, d + 1))
        if x < 0.9:
            return U('!', self.expr(scope, d + 1))
        return V(r.choice(sorted(self.boolvars)))

    def num(self, scope, d=0):
        r = self.r
        x = r.random()
        if d > 2 or x < 0.35:
            return N(r.randint(0, 4))
        if x < 0.65:
            names = [n for n in scope if n not in self.boolvars] if self.typed else scope
            return V(r.choice(names))
        if x < 0.85:
            return B(r.choice(['+', '-', '*', '+']), self.num(scope, d + 1), self.num(scope, d + 1))
        if x < 0.92 and self.funcs:
            f = r.choice(self.funcs)
            return C(f[0], *[(self.num if self.typed else self.expr)(scope, d + 1) for _ in range(r.randint(0, f[1] + 1))])
        if x < 0.96 and self.probes:
            self.tag += 1
            return C('hp', S(f'e{self.tag}'), self.num(scope, d + 1))
        return U('-', self.num(scope, d + 1))

    def cond(self, scope):
        e = self.expr(scope, 1)
        if self.r.random() < 0.12:
            # four or five precedence levels rising to the right: || < && < comparison < + < * (< **)
            leaf = lambda: self.num(scope, 3)  # noqa: E731
            top = B(self.r.choice(['+', '-']), leaf(), B(self.r.choice(['*', '*', '**']) if not self.typed else '*', leaf(), N(self.r.randint(1, 2))))
            e = B('&&', B(self.r.choice(['<', '<=', '>']), leaf(), N(self.r.randint(0, 6))), B(self.r.choice(['!=', '==', '<']), leaf(), top))
            if self.r.random() < 0.5:
                e = B('||', B('>', leaf(), N(self.r.randint(2, 9))), e)
            self.features.add('deep-precedence-condition')
        elif self.r.random() < 0.06:
            # a condition whose TOP node is a unary minus (true while the number is not zero) or a doubled not
            e = U('-', self.num(scope, 2)) if self.r.random() < 0.7 else U('!', U('!', e))
            self.features.add('unary-top-condition')
        if self.r.random() < 0.07:
            e = {'group': e}  # the whole test in parentheses: `if (a < b):`
            self.features.add('parenthesised-condition')
        if self.probes and self.r.random() < 0.3:
            self.tag += 1
            e = C('hp', S(f'c{self.tag}'), e)
        return e

    def log(self, scope):
        self.tag += 1
        k = min(len(scope), self.r.randint(1, 3))
        return LOG(f't{self.tag}', *[V(v) for v in self.r.sample(scope, k)])

    def block(self, scope, depth, inloop, infunc, n=None, inwhile=False):
        out = []
        for _ in range(n if n is not None else self.r.randint(1, 4 if depth < 3 else 2)):
            out.extend(self.stmt(scope, depth, inloop, infunc, inwhile))
        return out

    def stmt(self, scope, depth, inloop, infunc, inwhile):
        r = self.r
        x = r.random()
        if depth >= self.maxdepth or x < 0.22:
            if self.typed:
                tgt = r.choice(self.vars)
                return [['assign', tgt, self.boolexpr(scope) if tgt in self.boolvars else self.num(scope)]]
            return [['assign', r.choice(self.vars), self.num(scope) if r.random() < 0.7 else self.expr(scope)]]
        if x < 0.36:
            if self.expr_stmts and x < 0.27:
                # a statement that is only an expression: a call of a script function / the probe (kept), or a bare variable
                if self.funcs and r.random() < 0.7:
                    f = r.choice(self.funcs)
                    return [['expr', C(f[0], *[(self.num if self.typed else self.expr)(scope, 2) for _ in range(r.randint(0, f[1] + 1))])]]
                if self.probes and r.random() < 0.6:
                    self.tag += 1
                    return [['expr', C('hp', S(f's{self.tag}'), self.num(scope, 1))]]
                return [['expr', V(r.choice(scope))]]
            return [self.log(scope)]
        if x < 0.56:
            nb = r.randint(1, 3)
            br = [[self.cond(scope), self.block(scope, depth + 1, inloop, infunc, inwhile=inwhile)] for _ in range(nb)]
            el = self.block(scope, depth + 1, inloop, infunc, inwhile=inwhile) if r.random() < 0.5 else None
            self.features.add('if%d%s' % (nb, 'e' if el else ''))
            return [['if', br, el]]
        if x < 0.68:
            self.nloop += 1
            w = f'w{self.nloop}'
            k = r.randint(0, 3 if depth < 2 else 2)
            allow_cont = r.random() < self.p_wc
            body = [['assign', w, B('+', V(w), N(1))]] + self.block(scope + [w], depth + 1, True, infunc,
                                                                     inwhile=('c' if allow_cont else 'n'))
            c = B('<', V(w), N(k))
            if r.random() < 0.1:
                c = U('-', B('-', N(k), V(w)))  # `while -(k - w):` - the loop test is a unary minus at the top (non-zero = go on)
                self.features.add('unary-top-condition')
            elif r.random() < 0.4:
                c = B('&&', c, self.cond(scope))
            self.features.add('while')
            return [['assign', w, N(0)], ['while', c, body]]
        if x < 0.82:
            self.nloop += 1
            it = f'it{self.nloop}'
            ix = f'ix{self.nloop}' if r.random() < 0.5 else None
            y = r.random()
            if y < 0.6:
                vals = C('arrayNew', *[(self.num if self.typed else self.expr)(scope, 2) for _ in range(r.randint(0, 3 if depth < 2 else 2))])
            elif (y < 0.8 and self.probes) or self.typed:
                self.tag += 1
                inner = C('arrayNew', *[self.num(scope, 2) for _ in range(r.randint(0, 3))])
                vals = C('hp', S(f'v{self.tag}'), inner) if self.probes else inner
            else:
                vals = V(r.choice(scope))
            sc = scope + [it] + ([ix] if ix else [])
            body = self.block(sc, depth + 1, True, infunc, inwhile='n')
            if isinstance(vals, dict) and 'variable' in vals and r.random() < 0.5:
                # rebinding the walked variable inside the body must not affect the once-evaluated array
                body.insert(r.randint(0, len(body)), ['assign', vals['variable'], C('arrayNew', N(9))])
            self.features.add('forix' if ix else 'for')
            return [['for', it, ix, vals, body]]
        if x < 0.9 and inloop:
            kind = r.choice(['break', 'continue'])
            self.features.add(kind)
            if r.random() < 0.7:
                return [['if', [[self.cond(scope), [[kind]]]], None]]
            return [[kind]]
        if x < 0.95:
            rs = ['return', (self.num(scope) if self.typed else self.expr(scope)) if r.random() < 0.7 else None]
            self.features.add('return')
            if r.random() < 0.8:
                return [['if', [[self.cond(scope), [rs]]], None]]
            return [rs]
        return [self.log(scope)]

    def function(self, i):
        r = self.r
        np_ = r.randint(0, 3)
        params = [f'p{j}' for j in range(np_)]
        if self.shadow_params and np_ and r.random() < 0.3:
            # parameters named like globals: inside the body the parameter wins, an omitted one is null (never the global's value)
            params = r.sample(self.vars, min(np_, len(self.vars)))
            np_ = len(params)
        name = f'fn{i}'
        body = self.block(self.vars + params, 1, False, True, n=r.randint(1, 4))
        if r.random() < 0.5:
            body.insert(0, self.log(self.vars + params))
        lastarr = bool(params) and r.random() < 0.25
        return ['func', name, params, lastarr, body], (name, np_)

    def program(self):
        r = self.r
        prog = []
        nf = self.nfuncs if self.nfuncs is not None else r.randint(0, 3)
        for i in range(nf):
            f, sig = self.function(i)
            prog.append(f)
            self.funcs.append(sig)
        prog += self.block(self.vars, 0, False, False, n=r.randint(2, 6))
        if self.late_defs and nf:
            # functions bind globally when their definition statement EXECUTES: move a definition to a later top-level
            # position, put it inside an if branch, or define a name twice (the later definition wins from then on)
            x = r.random()
            if x < 0.25:
                f = prog.pop(r.randrange(nf))
                prog.insert(r.randint(nf - 1, len(prog)), f)
                self.features.add('late-def')
            elif x < 0.45:
                i = r.randrange(nf)
                y = r.random()
                if y < 0.5:
                    prog[i] = ['if', [[self.cond(self.vars), [prog[i]]]], None]
                elif y < 0.75:
                    # a definition inside an open global for / while block (break/continue inside the function bind to ITS loops)
                    self.nloop += 1
                    prog[i] = ['for', f'it{self.nloop}', None, C('arrayNew', N(1)), [prog[i]]]
                else:
                    self.nloop += 1
                    w = f'w{self.nloop}'
                    prog[i:i + 1] = [['assign', w, N(0)], ['while', B('<', V(w), N(1)), [['assign', w, B('+', V(w), N(1))], prog[i]]]]
                    nf += 1
                self.features.add('conditional-def')
            elif x < 0.6:
                i = r.randrange(nf)
                saved, self.funcs = self.funcs, self.funcs[:i]  # the new body may only call functions defined before it (no recursion)
                f2, _ = self.function(i)
                self.funcs = saved
                prog.insert(r.randint(nf, len(prog)), f2)
                self.features.add('redefinition')
        prog.append(self.log(self.vars))
        return prog


KEYWORD_FUNCS = ['returnValue', 'returns', 'iffy', 'ifx', 'elifx', 'elsewhere', 'endifx', 'whilex', 'endwhile2', 'forx', 'endforx', 'breaker', 'continued', 'functionx',
                 'endfunctionx', 'jumper', 'jumpifx', 'includes', 'inx', 'asyncfn', 'return_', 'for_', 'if_', 'while_', 'break_', 'continue_', 'else_', 'include_',
                 'function_', 'jump_', 'endif_', 'elif2', 'returnfn0', 'jumpif_']
KEYWORD_VARS = ['returned', 'ifs', 'fori', 'ins', 'whiles', 'breaks', 'elses', 'continues', 'jumps', 'included', 'endifs', 'functions', 'return1', 'if0', 'in_', 'break2']


def keyword_renaming(rnd, prog, names):
    """Map the function names defined in prog and the given variable names to identifiers that START with a keyword."""
    fnames = []
    def walk(stmts):
        for st in stmts:
            if st[0] == 'func':
                if st[1] not in fnames:
                    fnames.append(st[1])
                walk(st[4])
            elif st[0] == 'if':
                for _, b in st[1]:
                    walk(b)
                if st[2] is not None:
                    walk(st[2])
            elif st[0] == 'while':
                walk(st[2])
            elif st[0] == 'for':
                walk(st[4])
    walk(prog)
    mapping = dict(zip(fnames, rnd.sample(KEYWORD_FUNCS, len(fnames))))
    mapping.update(zip(names, rnd.sample(KEYWORD_VARS, len(names))))
    return mapping


def rename(node, mapping):
    """The same program / expression with identifiers renamed (variables, call names, assignment targets, parameters)."""
    if isinstance(node, dict):
        if 'variable' in node:
            return {'variable': mapping.get(node['variable'], node['variable'])}
        if 'function' in node:
            f = node['function']
            return {'function': {'name': mapping.get(f['name'], f['name']), 'args': [rename(a, mapping) for a in f['args']]}}
        return {k: rename(v, mapping) for k, v in node.items()}
    if isinstance(node, list):
        if node and isinstance(node[0], str):
            t = node[0]
            if t == 'assign':
                return ['assign', mapping.get(node[1], node[1]), rename(node[2], mapping)]
            if t == 'func':
                return ['func', mapping.get(node[1], node[1]), [mapping.get(a, a) for a in node[2]], node[3], rename(node[4], mapping)]
            if t == 'for':
                return ['for', mapping.get(node[1], node[1]), mapping.get(node[2], node[2]) if node[2] else node[2], rename(node[3], mapping), rename(node[4], mapping)]
            return [t] + [rename(x, mapping) for x in node[1:]]
        return [rename(x, mapping) for x in node]
    return node


def fix_while_continue(prog, allow):
    """Remove `continue` statements whose innermost loop is a while (replace by a no-op assignment) unless
    allowed: keeps coverage of everything else undiluted by finding F7."""
    def walk(stmts, loop):
        out = []
        for s in stmts:
            t = s[0]
            if t == 'continue' and loop == 'while' and not allow:
                out.append(['assign', 'vd', N(7)])
            elif t == 'if':
                out.append(['if', [[c, walk(b, loop)] for c, b in s[1]], walk(s[2], loop) if s[2] is not None else None])
            elif t == 'while':
                out.append(['while', s[1], walk(s[2], 'while')])
            elif t == 'for':
                out.append(['for', s[1], s[2], s[3], walk(s[4], 'for')])
            elif t == 'func':
                out.append(['func', s[1], s[2], s[3], walk(s[4], None)])
            else:
                out.append(s)
        return out
    return walk(prog, None)


def has_while_continue(prog):
    def walk(stmts, loop):
        for s in stmts:
            t = s[0]
            if t == 'continue' and loop == 'while':
                return True
            if t == 'if':
                if any(walk(b, loop) for _, b in s[1]) or (s[2] is not None and walk(s[2], loop)):
                    return True
            elif t == 'while' and walk(s[2], 'while'):
                return True
            elif t == 'for' and walk(s[4], 'for'):
                return True
            elif t == 'func' and walk(s[4], None):
                return True
        return False
    return walk(prog, None)


# ------------------------------------------------------------------ exhaustive nesting shapes

IF_VARIANTS = [(1, False, 0), (1, True, 0), (1, True, 'else'), (2, False, 0), (2, False, 1),
               (2, True, 0), (2, True, 1), (2, True, 'else')]
LOOP_OPTS = ['none', 'brk-g', 'brk-u', 'cnt-g', 'cnt-u', 'both-g']
CONSTRUCTS = [('if',) + v for v in IF_VARIANTS] + \
    [(k, o) for k in ('while', 'for', 'forix') for o in LOOP_OPTS]


def shape_count(depth):
    return sum(len(CONSTRUCTS) ** d for d in range(1, depth + 1))


def shapes(depth):
    for d in range(1, depth + 1):
        yield from itertools.product(range(len(CONSTRUCTS)), repeat=d)


def build_shape(chain, scope_kind='global'):
    """Instantiate a nesting chain with logging bodies. Conditions are drawn from the host source nx()
    (a per-run pattern), so one program text runs under several condition vectors."""
    ctr = [0]

    def tag():
        ctr[0] += 1
        return f's{ctr[0]}'

    def nxc():
        return C('nx')

    def build(level, in_loop):
        if level == len(chain):
            return [LOG(tag())]
        c = CONSTRUCTS[chain[level]]
        if c[0] == 'if':
            _, nb, has_else, pos = c
            child = build(level + 1, in_loop)

            def other():
                t = tag()
                extra = []
                if in_loop and ctr[0] % 3 == 0:
                    extra = [['break']]
                elif in_loop and ctr[0] % 3 == 1:
                    extra = [['continue']]
                return [LOG(t)] + extra
            branches = []
            for b in range(nb):
                branches.append([nxc(), ([LOG(tag())] + child + [LOG(tag())]) if pos == b else other()])
            el = None
            if has_else:
                el = ([LOG(tag())] + child) if pos == 'else' else other()
            return [LOG(tag()), ['if', branches, el], LOG(tag())]
        kind, opt = c
        n = level + 1
        child = build(level + 1, kind)
        ctl = []
        if opt == 'brk-g':
            ctl = [['if', [[nxc(), [['break']]]], None]]
        elif opt == 'brk-u':
            ctl = [['break']]
        elif opt == 'cnt-g':
            ctl = [['if', [[nxc(), [['continue']]]], None]]
        elif opt == 'cnt-u':
            ctl = [['continue']]
        elif opt == 'both-g':
            ctl = [['if', [[nxc(), [['continue']]], [nxc(), [['break']]]], None]]
        if kind == 'while':
            w = f'w{n}'
            body = [['assign', w, B('+', V(w), N(1))], LOG(tag(), V(w))] + child + ctl + [LOG(tag(), V(w))]
            return [['assign', w, N(0)], ['while', B('<', V(w), N(3)), body], LOG(tag(), V(w))]
        it = f'it{n}'
        ix = f'ix{n}' if kind == 'forix' else None
        body = [LOG(tag(), V(it), *( [V(ix)] if ix else []))] + child + ctl + [LOG(tag(), V(it))]
        return [['for', it, ix, C('arrayNew', N(5), N(6), N(7)), body], LOG(tag())]

    body = build(0, None)
    if scope_kind == 'global':
        return body + [['return', N(1)]]
    return [['func', 'fn0', ['p0'], False, body + [['return', S('r')]]],
            ['assign', 'rr', C('fn0', N(1))], LOG('end', V('rr'))]


# ------------------------------------------------------------------ C04: functions, scoping, host globals

def make_stub(name):
    def stub(args, options):
        log = options.get('logFn') if options is not None else None
        if log is not None:
            log(f'stub {name} nargs={len(args)}')
        return args[0] if args else None
    stub.__name__ = 'stub_' + name
    return stub


REPLACEABLE = ['mathAbs', 'stringLength', 'objectKeys', 'mathMax']
HOST_SHADOW = ['arrayPush', 'systemLogDebug', 'mathSign', 'stringTrim']
PARAM_POOL = ['p0', 'p1', 'p2', 'va', 'vb', 'gs', 'len', 'max', 'text', 'arrayPush', 'mathSign', 'q9']


class FuncGen(ProgGen):
    """Programs that stress the calling convention and scoping rules."""

    def __init__(self, rnd):
        super().__init__(rnd, maxdepth=3, probes=False, p_while_continue=0.0)
        self.sigs = []  # (name, params, lastarr)

    def fbody(self, name, params, lastarr):
        r = self.r
        scope = list(dict.fromkeys(self.vars + params))
        body = [LOG('in_' + name, *[V(p) for p in params])]
        for _ in range(r.randint(1, 4)):
            x = r.random()
            if x < 0.3:
                tgt = r.choice(self.vars + ['loc1', 'gs'] + params[:1])
                body.append(['assign', tgt, self.num(scope)])
                if tgt not in scope:
                    scope.append(tgt)
            elif x < 0.45:
                body.append(LOG('l_' + name, *[V(v) for v in r.sample(scope, min(2, len(scope)))]))
            elif x < 0.55:
                body.append(['expr', C('systemGlobalSet', S(r.choice(self.vars)), self.num(scope))])
            elif x < 0.65 and self.sigs:
                callee = r.choice(self.sigs)
                body.append(['assign', r.choice(['loc2', 'va']), self.callexpr(callee[0], scope)])
            elif x < 0.75:
                body.append(['if', [[self.cond(scope), [['return', self.num(scope)]]]], None])
            elif x < 0.85:
                body.append(['for', 'itf', None, C('arrayNew', N(1), N(2)), [['assign', r.choice(self.vars), B('+', V('itf'), self.num(scope))]]])
            else:
                body.append(['expr', C(r.choice(HOST_SHADOW + ['arrayPush']), V(r.choice(scope)), N(1))])
        if r.random() < 0.7:
            body.append(['return', self.expr(scope)])
        return body

    def callexpr(self, fname, scope, nargs=None):
        r = self.r
        n = r.randint(0, 5) if nargs is None else nargs
        return C(fname, *[self.expr(scope, 2) for _ in range(n)])

    def program(self):
        r = self.r
        prog = []
        nf = r.randint(1, 4)
        for i in range(nf):
            np_ = r.randint(0, 3)
            params = r.sample(PARAM_POOL, np_)
            lastarr = np_ > 0 and r.random() < 0.35
            name = f'fn{i}' if r.random() < 0.85 else r.choice(REPLACEABLE)
            if any(name == s[0] for s in self.sigs):
                name = f'fn{i}'
            body = self.fbody(name, params, lastarr)
            prog.append(['func', name, params, lastarr, body])
            self.sigs.append((name, params, lastarr))
            self.funcs.append((name, np_))
        scope = list(self.vars)
        for _ in range(r.randint(3, 8)):
            name, params, _ = r.choice(self.sigs)
            x = r.random()
            if x < 0.35:
                prog.append(['assign', r.choice(self.vars), self.callexpr(name, scope)])
            elif x < 0.5:
                prog.append(['assign', 'fv', V(name)])
                prog.append(['assign', r.choice(self.vars), self.callexpr('fv', scope)])
            elif x < 0.65:
                prog.append(['assign', 'pf', C('systemPartial', V(name), *[self.expr(scope, 2) for _ in range(r.randint(1, 3))])])
                prog.append(['assign', r.choice(self.vars), self.callexpr('pf', scope, r.randint(0, 3))])
                if r.random() < 0.4:
                    # a partial of a partial: earlier bound arguments stay in front of later ones
                    prog.append(['assign', 'pf2', C('systemPartial', V('pf'), *[S(f'late{k}') for k in range(r.randint(1, 2))])])
                    prog.append(['assign', r.choice(self.vars), self.callexpr('pf2', scope, r.randint(0, 2))])
                    prog.append(['assign', r.choice(self.vars), self.callexpr('pf', scope, 1)])
            elif x < 0.75:
                prog.append(['assign', 'arr', C('arrayNew', N(3), N(1), N(2), N(1))])
                prog.append(['expr', C('arraySort', V('arr'), V(name))])
                prog.append(LOG('sorted', V('arr')))
            elif x < 0.85:
                prog.append(['assign', 'ixf', C('arrayIndexOf', C('arrayNew', N(0), N(2), N(0), N(3)), V(name))])
                prog.append(LOG('ixf', V('ixf')))
            elif x < 0.92:
                prog.append(['assign', r.choice(self.vars), C(r.choice(REPLACEABLE), self.expr(scope, 2))])
            else:
                prog.append(['assign', r.choice(['gs'] + self.vars), self.num(scope)])
            prog.append(LOG('g', *[V(v) for v in self.vars]))
        if r.random() < 0.3:
            # a function that MUTATES its own rest array: every call gets a fresh array, also through systemPartial called
            # repeatedly without extra arguments, and the caller's values are never affected
            k = r.randint(1, 3)
            mut = r.choice([['expr', C('arrayPush', V('rest'), N(9))], ['expr', C('arrayPop', V('rest'))], ['expr', C('arraySet', V('rest'), N(0), S('m'))],
                            ['expr', C('arrayShift', V('rest'))]])
            prog.append(['func', 'accf', ['rest'], True, [mut, LOG('in_accf', V('rest')), ['return', C('arrayLength', V('rest'))]]])
            prog.append(['assign', 'pacc', C('systemPartial', V('accf'), *[N(i + 1) for i in range(k)])])
            for _ in range(r.randint(2, 3)):
                prog.append(LOG('pacc', C('pacc', *[N(7)] * r.choice([0, 0, 1]))))
            prog.append(LOG('direct', C('accf', N(1), N(2)), C('accf', N(1), N(2))))
        prog.append(LOG('end', *[V(v) for v in self.vars + ['gs']]))
        return prog


def strip_logs(stmts):
    """The same program without its systemLog statements: blocks may become EMPTY (a loop label directly followed by its
    loop-back jump, an if with empty branches)."""
    out = []
    for st in stmts:
        t = st[0]
        if t == 'expr' and 'function' in st[1] and st[1]['function']['name'] == 'systemLog':
            continue
        if t == 'if':
            out.append(['if', [[c, strip_logs(b)] for c, b in st[1]], strip_logs(st[2]) if st[2] is not None else None])
        elif t == 'while':
            out.append(['while', st[1], strip_logs(st[2])])
        elif t == 'for':
            out.append(['for', st[1], st[2], st[3], strip_logs(st[4])])
        elif t == 'func':
            out.append(['func', st[1], st[2], st[3], strip_logs(st[4])])
        else:
            out.append(st)
    return out
