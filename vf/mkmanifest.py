"""Regenerate MANIFEST.json from the table below: python3 vf/mkmanifest.py"""
import json
import os

HERE = os.path.dirname(os.path.dirname(os.path.abspath(__file__)))

BASELINE_OFF = ('cd /repo && env -u BARE_SCRIPT_PY_VERIF /venv/bin/python -m pytest -ra -q -p no:cacheprovider --timeout=900 '
                '--continue-on-collection-errors --junitxml=/tmp/verif-baseline.junit.xml')

CHECKS = {
    'C01': {
        'category': 'exploration',
        'technique': 'runtime monitoring: log/global-write recorders at the API boundary + big-step reference interpreter (RefAST) as oracle; exhaustive nesting shapes + grammar-generated programs',
        'text': ('Every generated structured program is parsed and executed by the real implementation under a log recorder and a '
                 'watched globals dict; result, log sequence, global write history and final globals must equal an independent '
                 'big-step interpreter of the source AST. All nesting chains of the 26 construct variants to depth 2 (quick) / 3 '
                 '(thorough) are enumerated under two condition vectors at global and function scope, plus thousands of seeded '
                 'random programs with initial globals of all nine types, also with keyword-prefixed identifiers, parameters shadowing globals, expression-only statements, respelled layouts (vf/layout.py) and debug mode. Held-on-observed, not a proof.'),
        'note': 'Trusts: the reference interpreter (vf/refast.py, vf/refeval.py); real library functions are used for library calls inside reference runs; safe expression subset; finding F7 (while+continue) and F14 (bool arithmetic) are classified by exact variant re-derivation.',
        'design_ref': '5/C01',
    },
}

CHECKS.update({
    'C02': {
        'category': 'exploration',
        'technique': 'runtime monitoring at the parse_expression boundary with an independent precedence-climbing parser as oracle; exhaustive operator chains + random trees + token soup',
        'text': ('Every text is parsed by the real parse_expression and by an independent reference parser; trees must be equal and '
                 'accept/reject must agree (only BareScriptParserError may escape). All 14^k operator chains for k<=3 (quick) / k<=4 '
                 '(thorough) with per-operand variants are enumerated; random trees to depth 8 are printed with minimal/redundant '
                 'parentheses and random whitespace; token soup and single-token mutants test rejection.'),
        'note': 'Trusts vf/refexpr.py; vocabulary avoids lexical quirks outside the property (1-character callees, unsigned exponents, an odd run of backslashes in front of a delimiter-like quote); plus-signed literals, bracket names with trailing blanks and hand-written string literals are part of the reference grammar; statement contexts (assignment, return, block headers, jumpif, expression statement, continued lines) go through parse_script.',
        'design_ref': '5/C02',
    },
    'C03': {
        'category': 'exploration',
        'technique': 'runtime monitoring of evaluate_expression with effect-logging host probes; independent typed operator table (RefEval) as oracle; full operator x operand-pair matrix in several time zones',
        'text': ('The real evaluator is run on the full matrix 14 operators x 68^2 operands of all nine types (several TZ settings), on '
                 'random trees whose operands are logging probes (order, exactly-once, laziness of && || if()), and on all 46 '
                 'expression built-ins against a documentation-derived alias table; values, probe event order and errors must equal '
                 'the reference.'),
        'note': 'Trusts vf/refeval.py and vf/refval.py; arithmetic domain errors and % with negative operands are skipped (owned by C05 / unspecified); F14 (booleans as numbers) is classified by the bool-coercing reference variant.',
        'design_ref': '5/C03',
    },
    'C04': {
        'category': 'exploration',
        'technique': 'runtime monitoring: watched globals dict (write history, read counts), host-binding identity checks, recording stubs; RefAST as oracle over generated multi-function programs',
        'text': ('Generated programs with 1-4 functions whose parameter names collide with globals, library names and built-ins are called '
                 'directly, via variables, systemPartial and library callbacks under host configurations that shadow library names; '
                 'the log, the global write history (assignments in functions must not appear), final globals and results must equal '
                 'the reference; host bindings (also library names bound to null) must be identical after the run; a global that only exists as a parameter name must '
                 'never be read. Run histories with own globals / no globals / no options must leave the library dictionaries untouched and leak nothing into later runs; include statements inside function bodies run in global scope (RefVM).'),
        'note': 'Trusts RefAST; arrayLength/arrayGet are never redefined (the for lowering calls them by name); built-in shadowing in expression mode is exercised in C03.',
        'design_ref': '5/C04',
    },
    'C05': {
        'category': 'fault_enumeration',
        'technique': 'runtime monitoring: exception-type filter at the API boundary, icontract post-condition on evaluate_expression results, LibrarySpy on every library function, fault-injecting host probes at every call position; RefAST call-wrapper semantics as oracle',
        'text': ('Adversarial operator matrix (0 divisors, 1e308, +-10**400, negative bases x fractional exponents, inf/nan, extreme '
                 'datetimes), every library function x argument lists of every length and type under a spy (failure value, debug '
                 'line, continuation), enumeration of host faults (6 exception classes x every host call position) in generated '
                 'programs, and programs with / % ** over adversarial globals: nothing but BareScriptRuntimeError/ParserError may '
                 'escape and every result must be a BareScript value.'),
        'note': 'F4 (arithmetic host exceptions) repaired by fix commit d92c837; F16 (datetimes within 48h of datetime.min/max) is a listed known finding classified by exception text + operand; single-statement resource exhaustion is out of scope (alarm => inconclusive).',
        'design_ref': '5/C05',
    },
})

CHECKS.update({
    'C06': {
        'category': 'exploration',
        'technique': 'runtime monitoring of parse_script: exception filter, position-consistency oracle on every BareScriptParserError (own logical-line joiner, caret inversion through the elision), marker accounting on accepted texts, prepend-shift metamorphic relation',
        'text': ('Token soup, single-token mutants of marker-carrying valid programs, deleted closing keywords, closers crossing a function '
                 'boundary, dangling continuations, nesting to depth 50 and faulty expressions embedded in eight statement contexts on '
                 'lines of 0-400 characters are parsed; only BareScriptParserError may escape, every accepted text must account for '
                 'every marker, open constructs must be rejected, and each error must carry a consistent line number, logical line, '
                 'in-range column, caret position and shift behaviour.'),
        'note': 'Trusts the oracle\'s logical-line joiner and the reference expression parser (fault offsets); columns are accepted in [start of blank run before the fault, fault]; F5/F11/F12 repaired by fix commits ef4b95b, 22e8129, ab69941.',
        'design_ref': '5/C06',
    },
    'C07': {
        'category': 'exploration',
        'technique': 'icontract post-condition on parse_script (schema validation + per-scope label facts) observed over an exhaustive enumeration of nesting shapes, plus lint label warnings',
        'text': ('Every nesting chain of the 26 construct variants to depth 3 (quick) / 4 (thorough) is parsed at global scope, inside a '
                 'function and in a three-function script, plus sibling and function-after-construct placements and random deeper '
                 'programs; the contract checks schema validity, that each generated jump targets a label defined exactly once in its '
                 'scope, that each generated label is targeted, and lint must emit no label warning; near-valid texts crossing a function boundary must be rejected or satisfy the same contract; shapes and their empty-body variants are executed and watched for "Unknown jump label".'),
        'note': 'Trusts schema_markdown validation and the label-fact checker in vf/contracts.py; the run-time half (no Unknown jump label) is observed by C01/C08 executions.',
        'design_ref': '5/C07',
    },
    'C08': {
        'category': 'exploration',
        'technique': 'runtime monitoring with a mutation sanitizer (frozen model proxies), statement-counter recorder and log recorder; RefVM small-step reference as oracle; exhaustive statement lists',
        'text': ('Every statement list of length <= 4 (quick) / <= 6 (thorough) over a 13-statement alphabet x 4 function configurations is '
                 'executed on a frozen model and again on a plain copy and compared with RefVM on result/error, log, globals and '
                 'statement count; random models to 40 statements (also run with one options dict shared across models) and parsed structured programs add breadth.'),
        'note': 'Trusts RefVM + RefEval; one-level functions; calls always carry args; F14 classified by the bool-coercing variant.',
        'design_ref': '5/C08',
    },
    'C09': {
        'category': 'fault_enumeration',
        'technique': 'fault enumeration over every statement-budget cut point: WatchedOptions counter-write invariant + RefVM(L) with one global clock as oracle + prefix metamorphic relation; virtual file system for includes',
        'text': ('Programs with loops, recursion, library callbacks (incl. data functions with and without variables) and nested includes '
                 'are run under every limit L in 1..N+2 and 0 (N <= 80) or sampled L; each run must equal RefVM(L) in status/message, '
                 'log, globals and (for completed runs) counter; counter writes never decrease or exceed L+1; limited runs are prefixes '
                 'of the unlimited run; an options dict reused across runs restarts at 0.'),
        'note': 'Trusts RefVM; typed generator keeps booleans out of arithmetic; callbacks under a variables object neither write globals nor read the variables; F8/F9 repaired by fix commits f2e2b97, 53f5995.',
        'design_ref': '5/C09',
    },
})

CHECKS.update({
    'C10': {
        'category': 'exploration',
        'technique': 'metamorphic runtime monitoring of parse_script: model equality between the canonical layout and seeded layout rewrites (no reference model needed)',
        'text': ('Generated programs and the seven shipped .bare scripts are re-laid-out (LF/CRLF, string vs chunk list/tuple/generator with '
                 'all chunkings up to 6 cuts for short texts, blank/comment insertion also inside continued lines, indentation, trailing '
                 'blanks, continuation at any blank outside strings/bracket names/<urls>); every rewrite must parse to the identical '
                 'model, and parse A / parse B / parse A again must reproduce A.'),
        'note': 'Assumes a blank outside string literals, bracket names and <urls> is a place where a space is allowed; F13 (return + trailing blanks) repaired by fix commit 3772383.',
        'design_ref': '5/C10',
    },
    'C11': {
        'category': 'exploration',
        'technique': 'order-axiom monitor (range, reflexivity, antisymmetry, transitivity) + independent comparator over an exhaustive pair/triple enumeration of a value pool; consumer scripts; icontract antisymmetry contract on value_compare',
        'text': ('All ordered pairs of a >130-value pool of all nine types in three time zones, all triples of a sub-pool plus random triples, '
                 'and consumer scripts (six operators, systemCompare, arraySort incl. stability and permutation by identity, dataSort '
                 'multi-key with directions, mathMin/mathMax, arrayIndexOf/arrayLastIndexOf) are checked against the order axioms and an '
                 'independent comparator.'),
        'note': 'Trusts refval.rcmp; NaN excluded as stated; no cyclic containers.',
        'design_ref': '5/C11',
    },
    'C12': {
        'category': 'exploration',
        'technique': 'differential runtime monitoring: every library function / operator executed on the int spelling and on the float spelling of the same arguments, comparing result, failure, log and post-call arguments',
        'text': ('Every library function except clock/random/fetch is called on steered and unguided argument lists in both number spellings '
                 '(recursively inside containers); all operators on an integral grid in the four int/float spellings; scripts whose float '
                 'literals and for-loop index feed index/count/size/radix/digit positions; all must agree under BareScript equality.'),
        'note': 'Results above 2**53 compared with 1e-12 relative tolerance; argument models only steer generation; F1/F2 repaired by fix commits 710d58a/76fca0e; F15 (digits >= 23) is a listed known finding.',
        'design_ref': '5/C12',
    },
    'C13': {
        'category': 'exploration',
        'technique': 'round-trip monitor over random IEEE-754 bit patterns and boundary classes through the Python API and script paths, with own text-shape regexes; parser near-miss table',
        'text': ('Random doubles, powers of ten with several mantissas, integers around 2^53/1e15/1e16/1e21, subnormals and zeros are '
                 'stringified through value_string, string concatenation, stringNew, arrayJoin and systemLog, parsed back with '
                 'numberParseFloat and as a source literal; integral values must print as integers; near-misses and random strings must '
                 'not yield non-finite or partial values.'),
        'note': 'Integral values >= 1e16 only need to be free of a trailing-zero fraction; Python-liberal numerals are not used as near-misses.',
        'design_ref': '5/C13',
    },
    'C14': {
        'category': 'exploration',
        'technique': 'round-trip monitor with the standard json parser as independent oracle, key-order and number-shape checks on the text, collision table over all serialised texts; exhaustive small strings',
        'text': ('Every string of length <= 3 (quick) / <= 4 (thorough) over {a . 0 , ] }} in value, element, object-value and key position '
                 'and random JSON values to depth 5 with hostile characters and C13 numbers are serialised (indent none/1..8) and parsed '
                 'back by json.loads and jsonParse; keys must be sorted, integral numbers fraction-free, and unequal values must never '
                 'share a text.'),
        'note': 'Trusts the standard library json parser; F3 (clean-up regexes firing inside strings) repaired by fix commit 503cb62.',
        'design_ref': '5/C14',
    },
    'C15': {
        'category': 'exploration',
        'technique': 'model-based runtime monitoring: generated scripts log result and whole aliased pool after every call; list/dict/str reference model replayed on a shadow pool as oracle',
        'text': ('Histories of 30 library calls over a pool of aliased, nestable containers with float-literal indices in -2..len+2 and '
                 'wrong-typed/missing/surplus arguments are executed as scripts; after each step the result and every pool entry must '
                 'equal the reference model (so mutations are visible through every alias and failing calls change nothing); regexEscape '
                 'and urlEncode* are checked against neighbours and percent-decoding.'),
        'note': 'Trusts vf/ref_seq.py; arrayDelete return value and empty search/separator strings not asserted; F14 classified by the bool-accepting model variant.',
        'design_ref': '5/C15',
    },
})

CHECKS.update({
    'C16': {
        'category': 'exploration',
        'technique': 'runtime monitoring in one process per time zone (TZ configuration) with a calendar-arithmetic reference and zoneinfo facts as oracle; sweep of every UTC-offset transition 1900-2100',
        'text': ('In each of eight zones random datetimeNew component lists are compared with datetime+timedelta normalisation, the seven '
                 'getters with the components, (d + n) - d with n, parse(format(d)) with d (also with sub-millisecond digits, truncated) and '
                 'the ISO text with the zone offset, for local times that exist with a whole-minute offset; every offset transition of '
                 'the zone is swept minute by minute; ISO near-misses must parse to null.'),
        'note': 'Trusts datetime/timedelta arithmetic and the system tz database through zoneinfo; non-existent local times and non-whole-minute offsets are excluded as the statement does.',
        'design_ref': '5/C16',
    },
    'C17': {
        'category': 'fault_enumeration',
        'technique': 'fault enumeration over every fetch position (missing / raising / broken text) on seeded include trees over a virtual file system; FetchRecorder history and log compared with RefVM + RefResolve',
        'text': ('Include trees to depth 4 / fan-out 3 over URL, absolute-path, relative-path, bare-name and no-URL-function roots with '
                 'relative, sub-directory, ../, absolute and system references, adjacent includes, early returns and globals/functions '
                 'defined by includes are executed fault-free and with each fetch in turn failing in three ways; result or error '
                 '(kind and resolved location), ordered fetch sequence, log and globals must equal the reference.'),
        'note': 'Trusts RefVM/resolve; included texts are parsed by the real parser on both sides; includes at top level of a file or inside a function defined and called in that same file; system prefix (absolute, relative or URL) ends in "/".',
        'design_ref': '5/C17',
    },
    'C18': {
        'category': 'exploration',
        'technique': 'mutation sanitizer + determinism monitor around lint_script; execution oracle (apply the edit a warning licenses and re-run on the real runtime); RefLint label/redefinition facts',
        'text': ('Generated structured programs (with injected pointless and call-hiding statements and callee-valued locals), jump-level '
                 'models with user/duplicate/dangling labels and duplicate functions/arguments, and the shipped scripts are linted on a '
                 'frozen model twice; unused-variable/argument warnings are tested by renaming, unused-label/pointless-statement warnings '
                 'by deletion and re-execution; unknown-label and redefinition warning sets must equal RefLint; a runtime "Unknown jump '
                 'label" must have been predicted.'),
        'note': 'Models with duplicated function names are checked for purity and facts only; budget-limited runs are compared as prefixes; finding F23 (lint does not analyse function statements nested inside a function body: a dangling jump there is not predicted) is classified by mechanism and has a directed witness in the quick tier.',
        'design_ref': '5/C18',
    },
    'C19': {
        'category': 'exploration',
        'technique': 'runtime monitoring of data functions through generated scripts and the exported Python API against a relational reference (RefRel over the independent comparator and RefEval); own CSV writer for the typed round trip in four time zones',
        'text': ('Tables with duplicate keys, nulls, mixed key types, colliding field names and JSON punctuation in keys are filtered, sorted '
                 '(multi-key, directions, stability), topped (float-literal counts), aggregated (six functions), joined (pairing, '
                 'untouched left fields, injective non-colliding renaming) and extended with calculated fields; typed tables are written '
                 'as CSV and read back, and date-like invalid text must stay a string.'),
        'note': 'Unmatched-row policy of dataJoin only required to be uniform; cross-category order of dataTop/dataAggregate not asserted; F2/F3/F10 repaired by fix commits 76fca0e/503cb62/e302378.',
        'design_ref': '5/C19',
    },
    'C20': {
        'category': 'exploration',
        'technique': 'reconstruction oracle over an exhaustive enumeration of line-list pairs, executed through execute_script with the CLI system-include fetcher; parse/validate/lint of every shipped include',
        'text': ('All pairs of line lists of length <= 4 (quick) / <= 6 (thorough) over three letters and random pairs to 40 lines (arrays, '
                 'LF and CRLF strings) are diffed by the shipped diffLines; blocks must be well formed and Identical+Remove / '
                 'Identical+Add must reconstruct the inputs; every shipped include must parse, validate, lint clean and load.'),
        'note': 'Minimality of the diff is not asserted; F6 (objectdiffs typo) repaired by fix commit e0a4236.',
        'design_ref': '5/C20',
    },
})

NOT_YET = {}


def main():
    props = [json.loads(l) for l in open(os.path.join(HERE, 'properties.jsonl'), encoding='utf-8')]
    checks = []
    na = []
    for p in props:
        pid = p['id']
        c = CHECKS.get(pid)
        if c is None:
            na.append({'property_id': pid, 'reason': NOT_YET.get(pid, 'check not built yet in this round (planned: see DESIGN.md section 5)')})
            continue
        checks.append({
            'property_id': pid,
            'quick_cmd': f'./check {pid} quick',
            'thorough_cmd': f'./check {pid} thorough',
            'evidence_file': f'/verif/evidence/{pid}.json',
            'replay_cmd_template': f'./check {pid} --replay {{path}}',
            'engine': 'vf',
            'level_claimed': {'category': c['category'], 'text': c['text'], 'design_ref': 'DESIGN.md section ' + c['design_ref']},
            'level_note': c['note'],
            'technique': c['technique'],
        })
    manifest = {
        'version': 1,
        'setup_cmd': ('/venv/bin/python -m pip install -q --no-index --find-links /opt/veriftools/wheels --target /verif/.deps '
                      'icontract asttokens deal >/dev/null 2>&1; /venv/bin/python -B -c "import sys; sys.path[:0]=[\'/verif\',\'/repo/src\',\'/verif/.deps\']; '
                      'import bare_script, vf.core, vf.contracts; print(\'setup ok, icontract:\', vf.contracts.HAVE_ICONTRACT)"'),
        'hooks': {
            'guard': 'BARE_SCRIPT_PY_VERIF',
            'enable': ('source-free: the harness sets BARE_SCRIPT_PY_VERIF=1 in every shard, imports bare_script from /repo/src of the '
                       'current working tree, rebinds module globals with contract wrappers and passes watched dicts; the repository '
                       'contains no hook code'),
            'baseline_off_cmd': BASELINE_OFF,
            'source_commits': [],
            'add_only': True,
        },
        'engines': [{'name': 'vf', 'path': '/verif/vf', 'serves_properties': [c['property_id'] for c in checks],
                     'kind_free_text': 'runtime monitors (recorders, contracts via icontract, mutation sanitizers) + executable reference models as oracles; sharded over 16 processes'}],
        'checks': checks,
        'not_applicable': na,
        'notes': 'All checks: exit 0 held on everything observed, exit 1 + VIOLATION line, exit 2 + INCONCLUSIVE line (monitor saw nothing / shard died). Known findings are listed in /verif/known_findings.json.',
    }
    with open(os.path.join(HERE, 'MANIFEST.json'), 'w', encoding='utf-8') as fh:
        json.dump(manifest, fh, indent=1)
        fh.write('\n')


if __name__ == '__main__':
    main()
