"""Regenerate MANIFEST.json from the table below: python3 vf/mkmanifest.py"""
import json
import os

HERE = os.path.dirname(os.path.dirname(os.path.abspath(__file__)))

BASELINE_OFF = ('cd /repo && env -u BARE_SCRIPT_PY_VERIF /venv/bin/python -m pytest -ra -q -p no:cacheprovider --timeout=900 '
                '--continue-on-collection-errors --junitxml=/tmp/verif-baseline.junit.xml')

CHECKS = {
    'C01': {
        'category': 'exploration',
        'technique': 'runtime monitoring: log/global-write recorders at the API boundary + big-step reference interpreter (RefAST) as oracle; exhaustive nesting shapes + grammar-generated programs',
        'text': ('Every generated structured program is parsed and executed by the real implementation under a log recorder and a '
                 'watched globals dict; result, log sequence, global write history and final globals must equal an independent '
                 'big-step interpreter of the source AST. All nesting chains of the 26 construct variants to depth 2 (quick) / 3 '
                 '(thorough) are enumerated under two condition vectors at global and function scope, plus thousands of seeded '
                 'random programs with initial globals of all nine types. Held-on-observed, not a proof.'),
        'note': 'Trusts: the reference interpreter (vf/refast.py, vf/refeval.py); real library functions are used for library calls inside reference runs; safe expression subset; finding F7 (while+continue) and F14 (bool arithmetic) are classified by exact variant re-derivation.',
        'design_ref': '5/C01',
    },
}

NOT_YET = {}


def main():
    props = [json.loads(l) for l in open(os.path.join(HERE, 'properties.jsonl'), encoding='utf-8')]
    checks = []
    na = []
    for p in props:
        pid = p['id']
        c = CHECKS.get(pid)
        if c is None:
            na.append({'property_id': pid, 'reason': NOT_YET.get(pid, 'check not built yet in this round (planned: see DESIGN.md section 5)')})
            continue
        checks.append({
            'property_id': pid,
            'quick_cmd': f'./check {pid} quick',
            'thorough_cmd': f'./check {pid} thorough',
            'evidence_file': f'/verif/evidence/{pid}.json',
            'replay_cmd_template': f'./check {pid} --replay {{path}}',
            'engine': 'vf',
            'level_claimed': {'category': c['category'], 'text': c['text'], 'design_ref': 'DESIGN.md section ' + c['design_ref']},
            'level_note': c['note'],
            'technique': c['technique'],
        })
    manifest = {
        'version': 1,
        'setup_cmd': ('/venv/bin/python -m pip install -q --no-index --find-links /opt/veriftools/wheels --target /verif/.deps '
                      'icontract asttokens deal >/dev/null 2>&1; /venv/bin/python -B -c "import sys; sys.path[:0]=[\'/verif\',\'/repo/src\',\'/verif/.deps\']; '
                      'import bare_script, vf.core, vf.contracts; print(\'setup ok, icontract:\', vf.contracts.HAVE_ICONTRACT)"'),
        'hooks': {
            'guard': 'BARE_SCRIPT_PY_VERIF',
            'enable': ('source-free: the harness sets BARE_SCRIPT_PY_VERIF=1 in every shard, imports bare_script from /repo/src of the '
                       'current working tree, rebinds module globals with contract wrappers and passes watched dicts; the repository '
                       'contains no hook code'),
            'baseline_off_cmd': BASELINE_OFF,
            'source_commits': [],
            'add_only': True,
        },
        'engines': [{'name': 'vf', 'path': '/verif/vf', 'serves_properties': [c['property_id'] for c in checks],
                     'kind_free_text': 'runtime monitors (recorders, contracts via icontract, mutation sanitizers) + executable reference models as oracles; sharded over 16 processes'}],
        'checks': checks,
        'not_applicable': na,
        'notes': 'All checks: exit 0 held on everything observed, exit 1 + VIOLATION line, exit 2 + INCONCLUSIVE line (monitor saw nothing / shard died). Known findings are listed in /verif/known_findings.json.',
    }
    with open(os.path.join(HERE, 'MANIFEST.json'), 'w', encoding='utf-8') as fh:
        json.dump(manifest, fh, indent=1)
        fh.write('\n')


if __name__ == '__main__':
    main()
