"""C01 - structured control flow runs with its source-level meaning.
Oracle: RefAST big-step reading; monitors: LogRecorder, WatchedGlobals history, parse contract."""
import random

from .. import exec_prog, gen_prog, layout, refval
from ..refast import pp

SHARED_OPTIONS = {}
PATTERNS = [[1, 0, 1, 1, 0, 0, 1, 0], [0, 1, 0, 0, 1, 1, 0, 1], [1, 1, 1, 1], [0, 0, 0, 0]]


def plan(tier, seed):
    specs = []
    if tier == 'quick':
        depth, nrand, nsh = 2, 9600, 14
        for sh in range(2):
            specs.append({'part': 'shapes', 'depth': depth, 'mod': 2, 'rem': sh, 'patterns': 2})
    else:
        depth, nrand, nsh = 3, 240000, 16
        for sh in range(16):
            specs.append({'part': 'shapes', 'depth': depth, 'mod': 16, 'rem': sh, 'patterns': 2})
    for sh in range(nsh):
        specs.append({'part': 'random', 'n': nrand // nsh, 'shard': sh})
    return specs


def meta(tier):
    depth = 2 if tier == 'quick' else 3
    return {
        'level': 'exploration',
        'rule': (f'(a) every nesting chain of the 26 construct variants (8 if-shapes x child position, 3 loop kinds x 6 '
                 f'break/continue options) to depth {depth}, at global scope and inside a function, each under 2 condition '
                 'vectors drawn by a stateful host condition source; (b) seeded grammar-generated programs (depth<=5, 0-3 '
                 'functions whose parameters may shadow globals and are called with too few / too many arguments, expression-only statements, identifiers that start with a keyword, respelled layouts, all seven constructs, probes for evaluate-once/laziness, initial globals from all nine value '
                 'types). A case is non-trivial if the real run produced >=1 log line and the program contains a loop or '
                 'branch; distinct = distinct (program text, initial globals, condition vector).'),
        'exhaustive': False,
        'extra': {'exhaustive_part': f'all {gen_prog.shape_count(depth)} nesting chains to depth {depth} x 2 scopes x 2 vectors'},
        'assumptions': ['library calls inside reference runs use the real library functions (their semantics belong to C12/C15)',
                        'expression subset: + - * comparisons && || ! over small numbers/strings (C03 owns the typed matrix)',
                        'post-loop values of for iteration/index variables and __bareScript temporaries are not compared'],
    }


def _lib():
    from bare_script.library import SCRIPT_FUNCTIONS
    return SCRIPT_FUNCTIONS


def _contracts():
    from ..contracts import Contracts
    return Contracts().install({'parse_script', 'value_compare'})


def _drain(con, acc, prop, case):
    for p, kind, detail in con.drain():
        if p == prop:
            acc.violation('contract:' + kind, detail, case)
        else:
            acc.count('cross_' + p + '_' + kind)


def run_case(prog, init, pattern, acc, con, lib, fuel=4000, limit=60000, respell=None, debug=False):
    text = '\n'.join(pp(prog))
    if respell is not None:
        text = layout.respell(text, random.Random(respell), 0.4)
    case = {'prog': prog, 'init': refval.enc(init), 'pattern': pattern, 'respell': respell, 'debug': debug}
    verdict, real, _ = exec_prog.compare_case(prog, init, pattern, acc, 'C01', lib, text=text, case=case, fuel=fuel, limit=limit, debug=debug)
    if verdict == 'violation' and acc.nviol <= 3:
        # shrink the violating program (greedy statement deletion while the verdict stays "violation") and report the small one too
        from ..core import Acc

        def still(p2):
            return exec_prog.compare_case(p2, init, pattern if pattern is None else list(pattern), Acc('C01'), 'C01', lib, fuel=fuel, limit=limit, debug=debug)[0] == 'violation'
        small = exec_prog.shrink(prog, still)
        if len(pp(small)) < len(pp(prog)):
            exec_prog.compare_case(small, init, pattern, acc, 'C01', lib, case={'prog': small, 'init': refval.enc(init), 'pattern': pattern, 'shrunk': True, 'debug': debug}, fuel=fuel, limit=limit, debug=debug)
    if verdict == 'ok' and respell is None and len(text) % 9 == 0:
        # option shapes a host may use: debug mode WITHOUT a log function, and no debug key at all - the run (result, globals,
        # status) is the same; only the log, which nobody receives, is not compared
        for extra in ({'logFn': exec_prog.DROP, 'debug': True}, {'logFn': exec_prog.DROP, 'debug': exec_prog.DROP}, {'debug': exec_prog.DROP}):
            alt = exec_prog.run_real(text, init, pattern if pattern is None else list(pattern), limit=limit, options_extra=extra)
            acc.count('option_shape_runs')
            if alt['status'] == 'timeout':
                continue
            bad = [k for k in ('status', 'result', 'globals') if alt[k] != real[k]] if not alt['status'].startswith('host-exception') else ['status']
            if bad:
                acc.violation('run-depends-on-option-shape:' + ','.join(bad), f'options {sorted(k for k in extra)} dropped/changed: {alt["status"]!r} {alt.get("result")!r:.200} vs {real["status"]!r} {real.get("result")!r:.200}\n{text}',
                              dict(case, option_shape=sorted(extra)))
                break
    if verdict == 'ok' and respell is None and len(text) % 4 == 1:
        # history: ONE options object serves all runs of the process (a finite statement limit, the counter of the last run still in it)
        lim = max(200, 3 * (real.get('count') or 0) + 50)
        alt = exec_prog.run_real(text, init, pattern if pattern is None else list(pattern), limit=lim, debug=debug, reuse=SHARED_OPTIONS)
        acc.count('reused_options_runs')
        if alt['status'] != 'timeout':
            bad = [k for k in ('status', 'result', 'logs', 'globals') if alt[k] != real[k]]
            if bad:
                acc.violation('run-depends-on-earlier-runs-with-the-same-options:' + ','.join(bad), '; '.join(f'{k}: reused={alt.get(k)!r:.300} fresh={real.get(k)!r:.300}' for k in bad) + f'\n{text}',
                              dict(case, reused_options=True))
    if verdict == 'ok' and respell is None and len(text) % 5 == 2 and real['status'] in ('ok',) and split_ok(prog):
        # history: the function definitions run in ONE execute_script call, the rest of the program in a LATER call on the same globals
        # with its own options and log function - the functions defined earlier belong to the run that calls them
        alt = split_run(prog, init, pattern, limit, debug)
        acc.count('split_definition_runs')
        if alt is not None:
            bad = [k for k in ('status', 'result', 'logs', 'globals') if alt[k] != real[k]]
            if alt['defs_logs']:
                bad.append('definition-run-logged')
            if bad:
                acc.violation('functions-of-an-earlier-run-misbehave:' + ','.join(bad), '; '.join(f'{k}: split={alt.get(k)!r:.300} single={real.get(k)!r:.300}' for k in bad if k in alt)
                              + f' definition-run log={alt["defs_logs"][:3]!r}\n{text}', dict(case, split=True))
    _drain(con, acc, 'C01', case)
    nontrivial = bool(real and real.get('logs')) and any(k in text for k in ('while ', 'for ', 'if '))
    acc.case((text, repr(sorted(case['init'].items(), key=str)) if isinstance(case['init'], dict) else '', pattern), nontrivial)
    acc.count('verdict_' + verdict)
    if verdict == 'ok' and len(acc.samples) < 2 and nontrivial:
        acc.sample({'program': text.split('\n')[:40], 'init': case['init'], 'pattern': pattern,
                    'result': real['result'], 'log_lines': len(real['logs']), 'first_logs': real['logs'][:5]})
    return verdict


def split_ok(prog):
    """All function definitions are the leading top-level statements (no conditional / late / repeated definition)."""
    k = 0
    while k < len(prog) and prog[k][0] == 'func':
        k += 1
    names = [st[1] for st in prog[:k]]
    return 0 < k < len(prog) and len(set(names)) == len(names) and "['func'," not in repr(prog[k:])


def split_run(prog, init, pattern, limit, debug=False):
    import copy
    bare_script, library, rt_err, p_err = exec_prog.real_api()
    k = next(i for i, st in enumerate(prog) if st[0] != 'func')
    g = copy.deepcopy(init)
    h = exec_prog.hosts(pattern if pattern is None else list(pattern))
    g.update(h)
    logs_a, logs_b = [], []
    try:
        with exec_prog.core.alarm(20):
            bare_script.execute_script(bare_script.parse_script('\n'.join(pp(prog[:k]))), {'globals': g, 'logFn': logs_a.append, 'maxStatements': limit, 'debug': debug})
            try:
                res = bare_script.execute_script(bare_script.parse_script('\n'.join(pp(prog[k:]))), {'globals': g, 'logFn': logs_b.append, 'maxStatements': limit, 'debug': debug})
                status = 'ok'
            except rt_err as exc:
                status, res = 'rterr:' + str(exc), None
    except exec_prog.core.CaseTimeout:
        return None
    return {'status': status, 'result': refval.canon(res), 'logs': logs_b, 'defs_logs': logs_a, 'globals': exec_prog.user_globals(g, library, h)}


def drain_loops(stmts):
    """while wN < 3 (counter-driven) -> while nx(): with the counter increment removed, so that a loop body can be EMPTY."""
    out = []
    for st in stmts:
        t = st[0]
        if t == 'while':
            body = [b for b in drain_loops(st[2]) if not (b[0] == 'assign' and b[1].startswith('w'))]
            out.append(['while', gen_prog.C('nx'), body])
        elif t == 'assign' and st[1].startswith('w') and st[2] == gen_prog.N(0):
            continue
        elif t == 'if':
            out.append(['if', [[c, drain_loops(b)] for c, b in st[1]], drain_loops(st[2]) if st[2] is not None else None])
        elif t == 'for':
            out.append(['for', st[1], st[2], st[3], drain_loops(st[4])])
        elif t == 'func':
            out.append(['func', st[1], st[2], st[3], drain_loops(st[4])])
        else:
            out.append(st)
    return out


def recursive_program(rnd):
    """A terminating recursive program: a function that calls ITSELF (in tail position `return rec(...)`, inside a larger return
    expression, or through a local), with a local that is assigned only on SOME paths - every call starts with a fresh local scope in
    which only its parameters are bound, so an unassigned local reads as the global of that name (or null); also mutual recursion."""
    N, S, V, C, B = gen_prog.N, gen_prog.S, gen_prog.V, gen_prog.C, gen_prog.B
    loc = rnd.choice(['bonus', 'va', 'keep'])
    cond = rnd.choice([B('==', B('%', V('n'), N(2)), N(1)), B('>', V('n'), N(rnd.randint(1, 3))), B('==', V('n'), N(rnd.randint(0, 4)))])
    body = [['if', [[cond, [['assign', loc, B('+', V('n'), N(rnd.randint(1, 9)))]]]], None],
            gen_prog.LOG('r', V('n'), V(loc), V('acc'))]
    if rnd.random() < 0.3:
        body.insert(0, ['assign', 'seen', B('+', C('if', B('==', V('seen'), {'variable': 'null'}), N(0), V('seen')), N(1))])
        body.insert(1, gen_prog.LOG('s', V('seen')))
    body.append(['if', [[B('<=', V('n'), N(0)), [['return', rnd.choice([V('acc'), B('+', V('acc'), C('if', B('==', V(loc), {'variable': 'null'}), N(0), V(loc)))])]]]], None])
    step = B('+', V('acc'), C('if', B('==', V(loc), {'variable': 'null'}), N(1), V(loc)))
    call = C('rec', B('-', V('n'), N(1)), step)
    style = rnd.choice(['tail', 'tail', 'tail', 'plus', 'local', 'branches'])
    if style == 'tail':
        body.append(['return', call])
    elif style == 'plus':
        body.append(['return', B('+', call, N(1))])
    elif style == 'local':
        body += [['assign', 'tmp', call], gen_prog.LOG('back', V('n'), V(loc)), ['return', V('tmp')]]
    else:
        body.append(['if', [[B('==', B('%', V('n'), N(3)), N(0)), [['return', call]]]], [['assign', 'extra', N(7)], ['return', C('rec', B('-', V('n'), N(1)), B('+', V('acc'), C('if', B('==', V('extra'), {'variable': 'null'}), N(0), V('extra'))))]]])
    prog = [['func', 'rec', ['n', 'acc'], False, body]]
    if rnd.random() < 0.6:
        prog.append(['assign', loc, N(100)])
    if rnd.random() < 0.3:
        # mutual recursion: each call of either function has its own locals
        prog.append(['func', 'ping', ['n'], False, [['if', [[B('==', B('%', V('n'), N(2)), N(0)), [['assign', 'mark', S('even')]]]], None], gen_prog.LOG('ping', V('n'), V('mark')),
                                                     ['if', [[B('<=', V('n'), N(0)), [['return', N(0)]]]], None], ['return', C('pong', B('-', V('n'), N(1)))]]])
        prog.append(['func', 'pong', ['n'], False, [gen_prog.LOG('pong', V('n'), V('mark')), ['if', [[B('<=', V('n'), N(0)), [['return', N(1)]]]], None], ['return', C('ping', B('-', V('n'), N(1)))]]])
        prog.append(gen_prog.LOG('pp', C('ping', N(rnd.randint(1, 6)))))
    # calls without arguments: each call gets its own (empty) argument list - the array arrayNew() returns belongs to that call alone, a
    # parameter that was not passed is null
    prog += [['assign', 'za', C('arrayNew')], ['expr', C('arrayPush', V('za'), N(rnd.randint(1, 9)), S('pushed'))], ['assign', 'zb', C('arrayNew')],
             ['func', 'noargs', ['p'], False, [gen_prog.LOG('noargs', V('p')), ['return', V('p')]]], gen_prog.LOG('zero', V('za'), V('zb'), C('noargs'), C('arrayLength', C('arrayNew')))]
    # a loop whose test is a raw VALUE (an empty object is true, an empty array and an empty string are false ...): the value decides with
    # the truthiness of the language at the first test and at every re-test
    tv = rnd.choice([C('objectNew'), C('objectNew'), C('objectNew', S('a'), V('null')), S('x'), S('0'), N(2), C('arrayNew', N(0)), C('arrayNew'), S(''), C('datetimeNew', N(1970), N(1), N(1))])
    prog += [['assign', 'tv', tv], ['assign', 'tn', N(0)],
             ['while', V('tv'), [['assign', 'tn', B('+', V('tn'), N(1))], ['if', [[B('>=', V('tn'), N(3)), [['assign', 'tv', rnd.choice([V('null'), N(0), S(''), C('arrayNew')])]]]], None]]],
             gen_prog.LOG('truthy-loop', V('tn'))]
    prog.append(gen_prog.LOG('top', C('rec', N(rnd.randint(1, 7)), N(0))))
    prog.append(gen_prog.LOG('again', C('rec', N(rnd.randint(0, 3)), N(rnd.randint(0, 5))), V(loc), V('seen')))
    return prog


def run_shard(spec, acc):
    lib = _lib()
    con = _contracts()
    acc.count('prior_runs_without_globals', exec_prog.prior_runs())
    if spec['part'] == 'shapes':
        n = 0
        for ix, chain in enumerate(gen_prog.shapes(spec['depth'])):
            if ix % spec['mod'] != spec['rem']:
                continue
            for scope in ('global', 'function'):
                prog = gen_prog.build_shape(chain, scope)
                for pat in PATTERNS[:spec['patterns']]:
                    run_case(prog, {}, pat, acc, con, lib, fuel=1500, limit=5000)
                    n += 1
                if len(chain) <= 2:
                    # empty bodies: the same shape without its log statements (while loops turn into `while nx():` drains)
                    bare = gen_prog.strip_logs(drain_loops(prog))
                    run_case(bare, {}, PATTERNS[(ix + 1) % 2], acc, con, lib, fuel=1500, limit=5000)
                    n += 1
            acc.cover('shape_depths', str(len(chain)))
        acc.count('shape_programs', n)
    else:
        base = spec['seed'] * 1000003 + spec['shard'] * 7919
        for i in range(spec['n']):
            rnd = random.Random(base + i)
            if i % 16 == 5:
                run_case(recursive_program(rnd), {}, None, acc, con, lib, respell=(base + i) if rnd.random() < 0.2 else None, debug=rnd.random() < 0.15)
                acc.count('recursive_programs')
                continue
            gen = gen_prog.ProgGen(rnd, maxdepth=rnd.choice([2, 3, 4, 5]))
            gen.late_defs = True
            gen.expr_stmts = True
            gen.shadow_params = True
            prog = gen.program()
            allow_wc = rnd.random() < 0.12
            prog = gen_prog.fix_while_continue(prog, allow_wc)
            init = gen_prog.init_values(rnd, gen.vars, p_num=0.6)
            if rnd.random() < 0.25:
                # identifiers that merely START with a keyword (returnValue, iffy, fori, breaker ...) are ordinary names
                mapping = gen_prog.keyword_renaming(rnd, prog, gen.vars)
                prog = gen_prog.rename(prog, mapping)
                init = {mapping.get(k, k): v for k, v in init.items()}
                acc.count('keyword_prefixed_identifier_programs')
            dbg = rnd.random() < 0.15  # debug mode only ADDS report lines for failing calls; control flow is the same
            if dbg:
                acc.count('debug_mode_programs')
            run_case(prog, init, None, acc, con, lib, respell=(base + i) if rnd.random() < 0.2 else None, debug=dbg)
            for f in gen.features:
                acc.cover('constructs', f)
    acc.count('contract_evals_parse', con.evals.get('parse_script_post', 0))
    acc.count('contract_evals_compare', con.evals.get('value_compare', 0))
    if con.evals.get('parse_script_post', 0) == 0:
        acc.note_inconclusive('parse_script contract saw zero evaluations')


def replay(spec, acc):
    lib = _lib()
    con = _contracts()
    case = spec['case']
    if 'prog' not in case:
        acc.note_inconclusive('replay payload has no program (finding-level entry)')
        return
    run_case(case['prog'], refval.dec(case['init']) if case.get('init') else {}, case.get('pattern'), acc, con, lib, respell=case.get('respell'), debug=bool(case.get('debug')))
