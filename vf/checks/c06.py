"""C06 - the parser is total and its diagnostics point at the offending source.
Monitors: exception filter + position-consistency oracle on every BareScriptParserError, marker accounting
on every accepted text, open-construct rejection, context-independent columns, prepend-shift metamorphic relation (also with blank/comment lines holding FF, VT, NEL, U+2028/9)."""
import io
import json
import random
import re

from .. import gen_prog, refexpr
from ..refast import pp
from ..refexpr import RefSyntax

_SPLIT = re.compile(r'\r?\n')
_COMMENT = re.compile(r'^\s*(?:#.*)?$')
_CONT = re.compile(r'\\\s*$')
_MARK = re.compile(r'\bmk\d+\b')
_INCLUDE_LINE = re.compile(r"^\s*include\s+(?:'((?:\\'|[^'])*)'|<([^>]*)>)\s*$")


def logical_lines(text):
    """Own joiner: {index of first physical line: logical line text}; plus pending continuation info."""
    lines = _SPLIT.split(text)
    out = {}
    cont = []
    first = None
    for i, part in enumerate(lines):
        if _COMMENT.match(part):
            continue
        stripped = _CONT.sub('', part)
        if not cont:
            first = i
        if stripped != part:
            cont.append(stripped.strip() if cont else stripped.rstrip())
            continue
        if cont:
            cont.append(stripped.strip())
            out[first] = ' '.join(cont)
            cont = []
        else:
            out[first] = part
    pending = None
    if cont:
        pending = (first, ' '.join(cont))
    return out, pending, len(lines)


def plan(tier, seed):
    specs = []
    nsh = 16
    n = 2000 if tier == 'quick' else 90000
    for sh in range(nsh):
        specs.append({'part': 'texts', 'n': n, 'shard': sh, 'timeout': 3000})
    for sh in range(4 if tier == 'quick' else 16):
        specs.append({'part': 'columns', 'shard': sh, 'nshards': 4 if tier == 'quick' else 16, 'n': 250 if tier == 'quick' else 4000, 'timeout': 3000})
    return specs


def meta(tier):
    return {
        'level': 'exploration',
        'rule': ('(a) token soup over the statement and expression vocabulary; (b) generated valid programs (every simple line carries a '
                 'unique marker) with one token deleted / inserted / swapped, one closing keyword deleted, a trailing continuation '
                 'backslash, closers crossing a function boundary, nesting to depth 50, backslash runs <= 8; (c) faulty expressions '
                 'embedded at offset o in eight statement contexts with line lengths 0-400 (all three elision branches) and the fault '
                 'at swept columns; each rejected text is re-parsed with k prepended comment/blank/assignment lines and with a raised '
                 'start line. Non-trivial: the text has >= 2 lines or a line longer than 120 characters; distinct = distinct text.'),
        'exhaustive': False,
        'assumptions': ['the logical-line joiner of the oracle follows the documented rules (comments/blank lines skipped, continuation parts '
                        'joined with single blanks, first part keeps its indentation)',
                        'expression-error columns are accepted anywhere in [start of the blank run before the first unconsumable character, that character]'],
    }


def _api():
    from bare_script.parser import BareScriptParserError, parse_script
    return parse_script, BareScriptParserError


# ------------------------------------------------------------------ the position oracle

def caret_problem(exc):
    """The caret row of str(e) must sit under the character at e.column_number of e.line (through the elision)."""
    msg = str(exc)
    rows = msg.split('\n')
    if len(rows) < 4 or rows[-1] != '':
        return f'message has unexpected shape: {msg!r}'
    header, shown, caret_row = rows[-4], rows[-3], rows[-2]
    # (the wording of the header line is not pinned; it has to name the error and, when known, the line number)
    if exc.error not in header or (exc.line_number is not None and str(exc.line_number) not in header):
        return f'header {header!r} does not carry the error text / line number {exc.line_number}'
    if not caret_row.endswith('^') or caret_row.strip() != '^':
        return f'caret row {caret_row!r}'
    ci = len(caret_row) - 1
    line, col = exc.line, exc.column_number
    if len(line) <= 120:
        if shown != line:
            return f'short line shown as {shown!r}'
        if ci != col - 1:
            return f'caret at {ci + 1}, column {col}'
        return None
    # the line text itself may begin with "... " or end in " ..." (token soup does that): try every reading of the markers and
    # accept the message if one of them maps the caret back to the column
    problems = []
    for plen in ([4, 0] if shown.startswith('... ') else [0]):
        for cut_suffix in ([True, False] if shown.endswith(' ...') else [False]):
            seg = shown[plen:]
            if cut_suffix:
                seg = seg[:-4]
            if len(seg) > 120:
                problems.append(f'elided segment has {len(seg)} characters')
                continue
            # the shown segment must be line[k:k+len(seg)] for the k that puts the caret under column col
            k = (col - 1) - (ci - plen)
            if k < 0 or line[k:k + len(seg)] != seg:
                problems.append(f'caret/elision do not map back: column {col}, caret index {ci}, prefix {plen}, shown {shown!r}')
                continue
            if plen == 0 and k != 0 or (not cut_suffix and k + len(seg) != len(line)):
                problems.append(f'text cut without an elision marker: shown {shown!r}')
                continue
            # (whether the elision markers are shown when nothing is cut on that side is not pinned: at column 61 the
            #  pinned tree prints "... " in front of an uncut line start; the caret still maps back correctly)
            if not 0 <= ci - plen <= len(seg):
                problems.append(f'caret outside the shown segment: {ci} {plen} {len(seg)}')
                continue
            return None
    return problems[0] if problems else 'no reading of the elision markers'


def position_problems(exc, text, start):
    out = []
    lines, pending, nphys = logical_lines(text)
    if exc.line_number is None:
        return ['line_number is None']
    if not isinstance(exc.line_number, int) or not start <= exc.line_number < start + nphys:
        return [f'line_number {exc.line_number} outside [{start}, {start + nphys})']
    idx = exc.line_number - start
    want = lines.get(idx)
    if want is None and pending is not None and pending[0] == idx:
        want = pending[1]
    if want is None:
        out.append(f'line_number {exc.line_number} is not the first physical line of a logical line')
    elif exc.line != want:
        out.append(f'line text {exc.line!r} is not logical line {exc.line_number}: {want!r}')
    if not isinstance(exc.column_number, int) or not 1 <= exc.column_number <= len(exc.line) + 1:
        out.append(f'column {exc.column_number} outside 1..{len(exc.line) + 1}')
    else:
        cp = caret_problem(exc)
        if cp:
            out.append('caret: ' + cp)
    return out


_HDR = {'if': re.compile(r'^if\s.*:$'), 'while': re.compile(r'^while\s.*:$'), 'for': re.compile(r'^for\s.*:$')}
_FUNC_HDR = re.compile(r'^(?:async\s+)?function\s.*:$')


def expected_open_block(text):
    """Own block-stack reading of a text whose lines are all well-formed statements: the construct a "Missing end..." diagnostic has to
    name is the INNERMOST block still open where the shortage is detected (the `endfunction` that finds a block of its function open,
    or the end of the text). Returns (kind, index of the header's first physical line), 'none' when every block is closed, or None when
    the text goes wrong in another way first (a closer without its opener, a nested function ...)."""
    lines, pending, _ = logical_lines(text)
    if pending is not None:
        return None
    stack = []
    func = None
    for ix in sorted(lines):
        ln = lines[ix].strip()
        floor = func[1] if func is not None else 0
        if _FUNC_HDR.match(ln):
            if func is not None:
                return None
            func = (ix, len(stack))
        elif ln == 'endfunction':
            if func is None:
                return None
            if len(stack) > func[1]:
                return stack[-1]
            func = None
        elif ln in ('endif', 'endwhile', 'endfor'):
            if len(stack) <= floor or stack[-1][0] != ln[3:]:
                return None
            stack.pop()
        elif re.match(r'^(elif\s.*:|else\s*:)$', ln):
            if len(stack) <= floor or stack[-1][0] != 'if':
                return None
        else:
            for kind, rx in _HDR.items():
                if rx.match(ln):
                    stack.append((kind, ix))
                    break
    if stack:
        return stack[-1]
    if func is not None:
        return ('function', func[0])
    return 'none'


def fields(exc):
    # the message is compared without its header line (which carries the line number in a wording that is not pinned)
    return (exc.error, exc.line, exc.column_number, exc.line_number, '\n'.join(str(exc).split('\n')[-3:]))


def outcome_of(parse_script, perr, arg, start):
    try:
        return ('model', json.dumps(parse_script(arg, start), sort_keys=True))
    except perr as exc:
        return ('error',) + fields(exc)[:4]
    except RecursionError:
        return ('recursion',)
    except Exception as exc:  # pylint: disable=broad-except
        return ('host-exception', type(exc).__name__, str(exc)[:200])


def check_input_forms(text, acc, api, start, case):
    """script_text is `str or iterable of str`: the same lines delivered as a list, a tuple, a one-shot generator, an iterator, a
    file object (lines keep their line ends) or multi-line chunks give the same model or the same diagnostic (error, line, column,
    line number) as the str form."""
    parse_script, perr = api
    if '\r' in text:
        return
    lines = text.split('\n')
    want = outcome_of(parse_script, perr, text, start)
    if want[0] == 'recursion':
        return
    k = max(1, len(lines) // 2)
    forms = {'list': lambda: list(lines), 'tuple': lambda: tuple(lines), 'generator': lambda: (ln for ln in lines), 'iterator': lambda: iter(list(lines)),
             'file-object': lambda: io.StringIO(text), 'map': lambda: map(str, lines), 'chunks': lambda: iter(['\n'.join(lines[:k]), '\n'.join(lines[k:])] if len(lines) > 1 else [text])}
    for name, mk in forms.items():
        got = outcome_of(parse_script, perr, mk(), start)
        acc.count('input_form_comparisons')
        if name == 'file-object':
            # parts are joined by line ends: a part that ends in a line end contributes an empty line of its own
            want_f = outcome_of(parse_script, perr, '\n'.join(io.StringIO(text)), start)
            if got != want_f:
                acc.violation('input-form-changes-outcome', f'{name}: {got!r:.300} but the equivalent str gives {want_f!r:.300}\n{text!r:.500}', dict(case, form=name))
                return
            continue
        if got != want:
            acc.violation('input-form-changes-outcome', f'{name}: {got!r:.300} but the str form gives {want!r:.300}\n{text!r:.500}', dict(case, form=name))
            return


def check_text(text, acc, api, start=1, must_reject=False, reject_or_account=False, kind='soup', expect_col=None, must_accept=False, expect_line=None):
    """Run the real parser on text under the full oracle. Returns the exception or model."""
    parse_script, perr = api
    case = {'text': text, 'start': start, 'must_reject': must_reject, 'kind': kind}
    if len(text) % 4 == 1:
        check_input_forms(text, acc, api, start, case)
    nontrivial = text.count('\n') >= 1 or len(text) > 120
    acc.case(text, nontrivial)
    acc.cover('kinds', kind)
    try:
        model = parse_script(text, start)
    except perr as exc:
        acc.count('rejected')
        if must_accept:
            # a diagnostic for a text in which nothing is at fault points at no offending source at all
            acc.violation('valid-text-rejected', f'{exc.error!r} at line {exc.line_number} ({exc.line!r:.120}) for a generated VALID program\ntext={text!r:.900}', case)
            return exc
        for p in position_problems(exc, text, start):
            acc.violation('diagnostic-position', f'{p}\nerror={exc.error!r} line_number={exc.line_number} column={exc.column_number} line={exc.line!r:.300}\ntext={text!r:.600}', case)
            return exc
        if kind in ('closer-deleted', 'deep-nest', 'open-function', 'cross-boundary') and exc.error.startswith('Missing end'):
            # which construct is the offending one: the innermost block still open where the shortage is detected
            want_blk = expected_open_block(text)
            if want_blk is not None:
                acc.count('open_block_oracle_checks')
                if want_blk == 'none' or (exc.error, exc.line_number) != (f'Missing end{want_blk[0]} statement', start + want_blk[1]):
                    acc.violation('diagnostic-names-the-wrong-block', f'{exc.error!r} at line {exc.line_number} ({exc.line!r:.100}); the innermost open block is '
                                  f'{want_blk if want_blk == "none" else (want_blk[0], start + want_blk[1])!r}\ntext={text!r:.800}', case)
                    return exc
        if expect_line is not None and exc.line_number != start + expect_line:
            # the ONE fault of this text sits on a known line
            acc.violation('diagnostic-names-another-line', f'{exc.error!r} at line {exc.line_number} ({exc.line!r:.100}); the only fault of the text is on line {start + expect_line}\ntext={text!r:.800}', case)
            return exc
        if expect_col is not None:
            lo, hi, lineno = expect_col
            if exc.line_number == lineno and not lo <= exc.column_number <= hi:
                acc.violation('diagnostic-column', f'column {exc.column_number} not in [{lo},{hi}] for line {exc.line!r:.300}', case)
                return exc
            acc.count('column_interval_checks')
        # prepend shift (metamorphic)
        k = 1 + (len(text) % 3)
        prefix = ['# c', '', 'zz = 1'][:k]
        if len(text) % 2:
            # blank / comment lines may contain characters that other line-splitting conventions treat as line ends (form feed,
            # vertical tab, NEL, U+2028 ...): here only LF and CRLF end a line, so each of these is still ONE line
            prefix = ['# page\x0cbreak \u2028 and \x85 in a comment', '\x0c', "zz = 'a\u2029b' + \"c\x0bd\x1c\""][:k]
        base = fields(exc)
        for variant, (t2, s2) in (('lines', ('\n'.join(prefix) + '\n' + text, start)), ('start', (text, start + k))):
            try:
                parse_script(t2, s2)
                acc.violation('prepend-shift', f'{variant}: shifted text accepted\n{text!r:.500}', case)
                return exc
            except perr as exc2:
                want = (base[0], base[1], base[2], base[3] + k, base[4])
                if fields(exc2) != want:
                    acc.violation('prepend-shift', f'{variant} k={k}: {fields(exc2)[:4]!r} != {want[:4]!r}\n{text!r:.500}', case)
                    return exc
            except Exception as exc2:  # pylint: disable=broad-except
                acc.violation('parser-totality', f'{type(exc2).__name__}: {exc2} on shifted text', case)
                return exc
        acc.count('prepend_shift_checks', 2)
        return exc
    except RecursionError:
        acc.count('skipped_recursion')
        return None
    except Exception as exc:  # pylint: disable=broad-except
        acc.violation('parser-totality', f'{type(exc).__name__}: {exc}\n{text!r:.600}', case)
        return None
    acc.count('accepted')
    if must_reject:
        acc.violation('open-construct-accepted', f'{kind}: text must be rejected but was accepted\n{text!r:.800}', case)
        return model
    # accounting of include lines: one model entry per include line, in order (also when the same file is named twice)
    want_inc = []
    lines_all, pending_all, _ = logical_lines(text)
    for ix in sorted(lines_all):
        mi = _INCLUDE_LINE.match(lines_all[ix])
        if mi:
            want_inc.append([mi.group(1).replace("\\'", "'") if mi.group(1) is not None else mi.group(2), mi.group(2) is not None])
    got_inc = []

    def collect(stmts):
        for st in stmts:
            if 'include' in st:
                got_inc.extend([[inc['url'], bool(inc.get('system'))] for inc in st['include']['includes']])
            elif 'function' in st:
                collect(st['function']['statements'])
    collect(model['statements'])
    if want_inc or got_inc:
        acc.count('include_lines_accounted', len(want_inc))
        if got_inc != want_inc:
            acc.violation('include-line-dropped', f'include lines {want_inc!r:.300} but the model holds {got_inc!r:.300}\n{text!r:.600}', case)
            return model
    # accounting by markers: every marker on a non-comment line must be present in the model
    js = json.dumps(model)
    lines, pending, _ = logical_lines(text)
    live = list(lines.values()) + ([pending[1]] if pending else [])
    for ln in live:
        for mk in _MARK.findall(ln):
            acc.count('marker_checks')
            if mk not in js:
                acc.violation('line-dropped', f'marker {mk} of line {ln!r:.200} is not in the model\n{text!r:.800}', case)
                return model
    return model


# ------------------------------------------------------------------ generators

class MarkGen(gen_prog.ProgGen):
    """Programs whose simple lines each carry a unique marker variable / label."""

    def __init__(self, rnd, maxdepth=3):
        super().__init__(rnd, maxdepth=maxdepth, probes=False)
        self.late_defs = True
        self.mk = 0

    def marker(self):
        self.mk += 1
        return f'mk{self.mk}'

    def stmt(self, scope, depth, inloop, infunc, inwhile):
        out = super().stmt(scope, depth, inloop, infunc, inwhile)
        res = []
        for s in out:
            if s[0] == 'assign':
                res.append(['assign', self.marker(), s[2]])
            elif s[0] == 'expr':
                res.append(['expr', gen_prog.C('systemLog', gen_prog.V(self.marker()))])
            elif s[0] in ('break', 'continue'):
                res.append(['assign', self.marker(), gen_prog.N(1)])
                res.append(s)
            elif s[0] == 'return':
                res.append(['return', gen_prog.V(self.marker())])
            else:
                res.append(s)
        return res


CLOSERS = ('endif', 'endwhile', 'endfor', 'endfunction')
SOUP = ['if', 'elif', 'else:', 'endif', 'while', 'endwhile', 'for', 'in', 'endfor', 'function', 'endfunction', 'break', 'continue',
        'return', 'jump', 'jumpif', 'include', 'lbl:', ':', '=', 'aa', 'bb', 'fn(', ')', '(', ',', '1', '2.5', "'s'", '"t"', '+', '-', '*',
        '&&', '||', '!', '<=', '==', '@', '[x y]', 'async', '...', '<lib.bare>', "'x.bare'", '\\', '#', 'aa:', 'fn(aa):', 'aa =', '1e+3']


def soup_text(rnd):
    lines = []
    for _ in range(rnd.randint(1, 5)):
        ln = ' '.join(rnd.choice(SOUP) for _ in range(rnd.randint(0, 7)))
        if rnd.random() < 0.3:
            ln = ' ' * rnd.randint(0, 6) + ln
        if rnd.random() < 0.15:
            ln += ' ' + '\\' * rnd.randint(1, 8)
        lines.append(ln)
    return rnd.choice(['\n', '\r\n']).join(lines)


def mutate(rnd, text):
    """One mutation of a valid program; returns (text, kind, must_reject, reject_or_account)."""
    lines = text.split('\n')
    m = rnd.random()
    if m < 0.25:
        ixs = [i for i, l in enumerate(lines) if l.strip() in CLOSERS]
        if ixs:
            del lines[rnd.choice(ixs)]
            return '\n'.join(lines), 'closer-deleted', True, False
    if m < 0.35:
        lines.append('mk9998 = 1' + rnd.choice([' \\', '\\', ' \\  ', ' \\\t']))
        return '\n'.join(lines), 'trailing-backslash', False, True
    if m < 0.45:
        # a closer / loop-control statement that would have to cross a function boundary
        tmpl = rnd.choice([
            ['while aa:', '    function fq():', '        break', '    endfunction', 'endwhile'],
            ['for xx in yy:', '    function fq():', '        continue', '    endfunction', 'endfor'],
            ['if aa:', '    function fq():', '    endif', '    endfunction'],
            ['if aa:', '    function fq():', '        else:', '    endfunction', 'endif'],
            ['while aa:', 'function fq():', 'endwhile', 'endfunction'],
            ['while aa:', '    function fq():', '        if bb:', '            break', '        endif', '    endfunction', 'endwhile'],
            ['for xx in yy:', '    function fq():', '        if bb:', '            xx = 1', '        else:', '            continue', '        endif', '    endfunction', 'endfor'],
            ['while aa:', '    if cc:', '        function fq():', '            if bb:', '                break', '            endif', '        endfunction', '    endif', 'endwhile'],
            ['function fq():', '    if aa:', 'endfunction', '    endif'],
            ['function fq():', '    function fr():', '    endfunction', 'endfunction'],
            ['endfunction'], ['else:'], ['elif aa:'], ['endfor'], ['break'], ['continue'], ['endif'], ['endwhile'],
            ['if aa:', 'else:', 'else:', 'endif'], ['if aa:', 'else:', 'elif bb:', 'endif'],
        ])
        pos = rnd.randint(0, len(lines)) if len(tmpl) > 1 else 0
        return '\n'.join(lines[:pos] + tmpl + lines[pos:]), 'cross-boundary', True, False
    if m < 0.5:
        # unterminated function at end of input
        return '\n'.join(lines + ['function fz(aa):', '    mk9999 = 1']), 'open-function', True, False
    i = rnd.randrange(len(lines))
    toks = lines[i].split(' ')
    j = rnd.randrange(len(toks))
    if m < 0.67:
        del toks[j]
        kind = 'token-deleted'
    elif m < 0.84:
        toks.insert(j, rnd.choice(SOUP))
        kind = 'token-inserted'
    else:
        j2 = rnd.randrange(len(toks))
        toks[j], toks[j2] = toks[j2], toks[j]
        kind = 'token-swapped'
    lines[i] = ' '.join(toks)
    return '\n'.join(lines), kind, False, False


def deep_nest(rnd):
    d = rnd.randint(10, 50)
    kinds = [rnd.choice(['if', 'while', 'for']) for _ in range(d)]
    lines = []
    for i, k in enumerate(kinds):
        lines.append(' ' * i + {'if': f'if c{i}:', 'while': f'while c{i}:', 'for': f'for v{i} in a{i}:'}[k])
    lines.append(' ' * d + 'mk1 = 1')
    closers = [' ' * i + 'end' + k for i, k in reversed(list(enumerate(kinds)))]
    if rnd.random() < 0.7:
        del closers[rnd.randrange(len(closers))]
        return '\n'.join(lines + closers), True
    return '\n'.join(lines + closers), False


def with_layout_noise(rnd, text):
    """Insert comments/blank lines and continuation breaks (at blanks outside strings) so that logical lines span
    several physical lines."""
    out = []
    for ln in text.split('\n'):
        if rnd.random() < 0.2:
            out.append(rnd.choice(['', '# note', '   ', '\x0c', '# note\u2028continued \x0b', ' \x85 ', '\x1c\x1d', '# cr \r inside']))
        if rnd.random() < 0.25 and "'" not in ln and '"' not in ln and ' ' in ln.strip():
            s = ln.rstrip()
            cut = [m.start() for m in re.finditer(r' ', s) if m.start() > len(s) - len(s.lstrip())]
            if cut:
                c = rnd.choice(cut)
                out.append(s[:c] + ' \\')
                if rnd.random() < 0.3:
                    out.append('# inside')
                out.append('    ' + s[c + 1:])
                continue
        out.append(ln)
    return '\n'.join(out)


def run_texts(spec, acc, api):
    base = spec['seed'] * 1000003 + spec['shard'] * 7919 + 43
    for i in range(spec['n']):
        rnd = random.Random(base + i)
        x = rnd.random()
        start = rnd.choice([1, 1, 1, 5, 100])
        if x < 0.3:
            check_text(soup_text(rnd), acc, api, start=start, kind='soup')
        elif x < 0.9:
            gen = MarkGen(rnd, maxdepth=rnd.choice([1, 2, 3]))
            text = '\n'.join(pp(gen.program()))
            if rnd.random() < 0.25:
                # blocks of consecutive include lines (adjacent lines merge into one statement), the same file more than once
                urls = ["'lib.bare'", "'lib.bare'", '<sys.bare>', "'dir/a b.bare'", '<sys.bare>', "'it\\'s.bare'"]
                block = [f'include {rnd.choice(urls)}' for _ in range(rnd.randint(1, 4))]
                lines_t = text.split('\n')
                pos = rnd.choice([0, len(lines_t)])
                text = '\n'.join(lines_t[:pos] + block + lines_t[pos:])
            if rnd.random() < 0.2:
                # the whole program inside an open global loop, after a function defined in that loop: the rest of the block (its
                # break / continue / else / closing keywords) still belongs to the loop
                head = rnd.choice([['wq = 0', 'while wq < 1:', '    wq = wq + 1'], ['for wq in arrayNew(1):'], ['wq = 1', 'if wq:']])
                closer = {'while': 'endwhile', 'for w': 'endfor', 'if wq': 'endif'}[head[-1][:5] if head[-1].startswith(('for', 'if')) else 'while']
                inner = ['    function fq(aa):', '        mk9001 = aa', '        if aa:', '            return 1', '        endif', '    endfunction']
                tail = ['    if wq > 5:', '        mk9002 = 1', '    elif wq > 4:', '        mk9003 = 1', '    else:', '        mk9004 = 1', '    endif']
                if not head[-1].startswith('if'):
                    tail += ['    if wq > 7:', '        ' + rnd.choice(['break', 'continue']), '    endif']
                body = ['    ' + ln for ln in text.split('\n')]
                text = '\n'.join(head + inner + tail + body + [closer])
                acc.count('programs_after_a_function_in_an_open_block')
            if rnd.random() < 0.4:
                text = with_layout_noise(rnd, text)
            if rnd.random() < 0.06:
                # ONE fault: a continuation backslash at the end of the last line (often a closing keyword) - nothing follows it; the
                # diagnostic belongs to that last logical line, whatever blocks its missing end leaves open
                ll, pend, _ = logical_lines(text)
                if ll and pend is None:
                    last_first = max(ll)
                    check_text(text + rnd.choice([' \\', '\\', ' \\  ']), acc, api, start=start, must_reject=True, kind='backslash-on-last-line', expect_line=last_first)
                    acc.count('backslash_on_last_line_texts')
            if rnd.random() < 0.12:
                check_text(text, acc, api, start=start, kind='valid', must_accept=True)
            else:
                t2, kind, must, roa = mutate(rnd, text)
                check_text(t2, acc, api, start=start, must_reject=must, reject_or_account=roa, kind=kind)
        else:
            t, must = deep_nest(rnd)
            check_text(t, acc, api, start=start, must_reject=must, kind='deep-nest')
        if len(acc.samples) < 2 and x > 0.5:
            acc.sample({'kind': 'mutated program', 'seed_case': i})


# ------------------------------------------------------------------ context-independent columns on long lines

FAULTS = ['f f', 'e e', 'n n', 'if if', 'r r', 'le le', 'in in', 'or or', 'aa + @ bb', 'aa +', 'fn(1 2)', '(aa + bb', 'aa bb', 'fn(aa,', '1 + * 2', "aa + 'x", 'aa + )', 'fn(aa))', '!', 'aa <= <= bb', '[xx', 'aa +   @']


def ref_fault(e):
    try:
        refexpr.parse(e)
        return None
    except RefSyntax as exc:
        f = exc.pos
        g = f
        while g > 0 and e[g - 1] in ' \t':
            g -= 1
        return g, f


def contexts(E, rnd):
    ind = ' ' * rnd.choice([0, 0, 2, 4, 8])
    yield 'assign', f'{ind}xx = ', E, '', []
    yield 'return', f'{ind}return ', E, '', []
    yield 'jumpif', f'{ind}jumpif (', E, ') lbl', []
    yield 'if', f'{ind}if ', E, ':', []
    yield 'elif', f'{ind}elif ', E, ':', ['if cc:']
    yield 'while', f'{ind}while ', E, ':', []
    yield 'for', f'{ind}for vv in ', E, ':', []
    yield 'expr', ind, E, '', []


def run_columns(spec, acc, api):
    base = spec['seed'] * 1000003 + spec['shard'] * 7919 + 47
    for i in range(spec['n']):
        rnd = random.Random(base + i)
        fault = rnd.choice(FAULTS)
        # pad the faulty expression on the left with a valid prefix so that the fault sits at a swept column of a 0-400 line
        npre = rnd.choice([0, 0, 1, 3, 8, 15, 25, 40, 60])
        pre = ''.join(f'v{j:02d} + ' for j in range(npre))
        E = pre + fault
        if rnd.random() < 0.5 and fault not in ('aa +', 'fn(aa,', '!', "aa + 'x", '[xx', '(aa + bb', 'aa +   @'):
            E = E + ''.join(f' + w{j:02d}' for j in range(rnd.choice([0, 5, 20, 40])))
        rf = ref_fault(E)
        if rf is None:
            acc.note_inconclusive(f'reference accepts fault expression {E!r}')
            continue
        g, f = rf
        for name, head, expr, tail, before in contexts(E, rnd):
            line = head + expr + tail + rnd.choice(['', '', ' ', '   ', '\t', ' \t '])
            o = len(head)
            if name == 'expr':
                # the whole line is the expression: leading indentation belongs to the unparsed remainder when the fault is at the start
                lo = (o + g + 1) if g > 0 else 1
            else:
                lo = o + g + 1
            hi = o + f + 1
            after = ['endif'] if name in ('if', 'elif') else (['endwhile'] if name == 'while' else (['endfor'] if name == 'for' else []))
            text = '\n'.join(before + [line] + after)
            acc.cover('contexts', name)
            acc.cover('line_length_class', '<=120' if len(line) <= 120 else ('fault-left' if o + f < 60 else ('fault-right' if len(line) - (o + f) < 60 else 'fault-middle')))
            r = check_text(text, acc, api, start=rnd.choice([1, 7]), must_reject=True, kind='ctx-' + name, expect_col=(lo, hi, None))
            if hasattr(r, 'column_number') and r.line == line and not lo <= r.column_number <= hi:
                acc.violation('diagnostic-column', f'{name}: column {r.column_number} not in [{lo},{hi}] for {line!r:.400} (fault {fault!r})',
                              {'text': text, 'start': 1, 'must_reject': True, 'kind': 'ctx-' + name})
            elif hasattr(r, 'column_number') and r.line == line:
                acc.count('column_interval_checks')
        if len(acc.samples) < 2:
            acc.sample({'fault_expression': E[:200], 'first_unconsumable_offset': f, 'contexts': 8})


def run_shard(spec, acc):
    api = _api()
    if spec['part'] == 'texts':
        run_texts(spec, acc, api)
    else:
        run_columns(spec, acc, api)
    if acc.counters.get('rejected', 0) == 0:
        acc.note_inconclusive('no rejection was observed')


def replay(spec, acc):
    case = spec['case']
    if 'text' not in case:
        acc.note_inconclusive('finding-level replay entry')
        return
    pend = logical_lines(case['text'])[1]
    check_text(case['text'], acc, _api(), start=case.get('start', 1), must_reject=case.get('must_reject', False), kind=case.get('kind', 'replay'), must_accept=case.get('kind') == 'valid',
               expect_line=pend[0] if case.get('kind') == 'backslash-on-last-line' and pend else None)
