"""C19 - data functions implement their relational meaning; CSV typing round-trips.
Oracle: RefRel (relational meanings over refval.rcmp / RefEval row expressions, own CSV writer); calls go through
generated scripts (float literals for counts) and through the exported Python functions."""
import copy
import datetime
import functools
import json
import fractions
import math
import os
import random

from .. import core, refeval, refexpr, refval
from ..refeval import RefEval
from ..refval import rcmp

DT = datetime.datetime
KEYPOOLS = [
    [1, 2, 3, None],
    [1, 2, 2.5, 'a', 'b', None, True],
    ['a.,', 'a,', 'x', 'a.0]', 'a]', 'a.0', 'a'],
    [0, 1, '0', '1', True, False, None],
    [DT(2020, 1, 1), DT(2020, 1, 2), DT(2021, 5, 5, 12, 30), None, 1],
    [1, 1.0, 2, 2.0, '1', None],
]
TRUTH_POOL = [[], {}, [0], {'a': 1}, None, 0, '', 'x', 0.0, False, True, DT(2020, 1, 1)]


def plan(tier, seed):
    n = 2500 if tier == 'quick' else 40000
    specs = [{'part': 'relational', 'n': n, 'shard': sh} for sh in range(12)]
    # (the last two zones switch to summer time AT local midnight: the day of the switch has no 00:00 on the wall clock)
    for sh in range(6):
        specs.append({'part': 'csv', 'n': (1500 if tier == 'quick' else 30000) // (1 if sh < 4 else 3), 'shard': sh,
                      'env': {'TZ': ['UTC', 'America/New_York', 'Asia/Kolkata', 'Pacific/Chatham', 'America/Havana', 'XST5XDT,M3.2.0/0,M11.1.0/1'][sh]}})
    return specs


def meta(tier):
    return {
        'level': 'exploration',
        'rule': ('seeded tables of 0-12 rows x 2-5 fields drawn from colliding names (a, b, c, a2, a3) with duplicate keys, nulls, mixed '
                 'key types (null/boolean/number int+float/string/datetime) and key strings containing JSON punctuation; dataFilter, '
                 'dataSort (multi-key, directions), dataTop (float-literal counts, categories), dataAggregate (all six functions, 0-2 '
                 'categories), dataJoin (expression keys, renaming) and dataCalculatedField called through generated scripts and through '
                 'the exported Python functions, compared with the relational reference; typed tables written by an own CSV writer '
                 '(quoted commas/quotes, nulls, date-like invalid text such as 2024-02-30) and read back with dataParseCSV in four time '
                 'zones. Non-trivial: a table with >= 2 rows; distinct = distinct (operation, table, parameters).'),
        'exhaustive': False,
        'assumptions': ['unmatched-row policy of dataJoin is only required to be uniform per call; the overall order across categories of '
                        'dataTop/dataAggregate is not asserted; grouping keys never pair a datetime with its own ISO text or -0.0 with 0',
                        'CSV cells contain no newlines and no leading blanks; string columns never contain the literal null'],
    }


def _api():
    import bare_script
    from bare_script.library import SCRIPT_FUNCTIONS
    return bare_script, SCRIPT_FUNCTIONS


def lit(v):
    if v is None:
        return 'null'
    if isinstance(v, bool):
        return 'true' if v else 'false'
    if isinstance(v, (int, float)):
        s = refval.numtext(float(v))
        return s if v >= 0 else '(0 - ' + s[1:] + ')'
    if isinstance(v, str):
        return "'" + v.replace('\\', '\\\\').replace("'", "\\'") + "'"
    if isinstance(v, datetime.datetime):
        return f'datetimeNew({v.year}, {v.month}, {v.day}, {v.hour}, {v.minute}, {v.second})'
    if isinstance(v, list):
        return 'arrayNew(' + ', '.join(lit(x) for x in v) + ')'
    if isinstance(v, dict):
        return 'objectNew(' + ', '.join(lit(k) + ', ' + lit(x) for k, x in v.items()) + ')'
    raise TypeError(v)


def tbl_lit(rows):
    return 'arrayNew(' + ', '.join('objectNew(' + ', '.join(lit(k) + ', ' + lit(v) for k, v in r.items()) + ')' for r in rows) + ')'


def gen_table(rnd, fields, nrows, keypool):
    rows = []
    for _ in range(nrows):
        r = {}
        for f in fields:
            if rnd.random() < 0.1:
                continue
            r[f] = rnd.choice(keypool)
        rows.append(r)
    return rows


def veq(a, b):
    return rcmp(a, b) == 0 and refval.rtype(a) == refval.rtype(b)


def rows_eq(a, b, tol=False):
    if not isinstance(a, list) or not isinstance(b, list) or len(a) != len(b):
        return False
    for x, y in zip(a, b):
        if not row_eq(x, y, tol):
            return False
    return True


def row_eq(x, y, tol=False):
    if not isinstance(x, dict) or not isinstance(y, dict) or x.keys() != y.keys():
        return False
    for k in x:
        p, q = x[k], y[k]
        if tol and refval.isnum(p) and refval.isnum(q):
            if not math.isclose(p, q, rel_tol=1e-9, abs_tol=1e-12):
                return False
        elif not veq(p, q):
            return False
    return True


LIB = {}


def ref_row_eval(expr_text, row, gvals=None):
    tree = refexpr.strip_groups(refexpr.parse(expr_text))
    g = dict(gvals or {})
    ev = RefEval(g, {'globals': g}, LIB, refeval.Propagate, builtins=True)
    return ev.ev(tree, dict(row))


def groups_of(rows, cats):
    groups = []
    for row in rows:
        key = [row.get(c) for c in cats]
        for g in groups:
            if all(veq(a, b) or (rcmp(a, b) == 0) for a, b in zip(g[0], key)):
                g[1].append(row)
                break
        else:
            groups.append((key, [row]))
    return groups


def ambiguous_keys(values):
    """Keys the JSON-keyed buckets cannot tell apart although the order distinguishes them (or vice versa): excluded."""
    for v in values:
        if isinstance(v, float) and v == 0 and math.copysign(1, v) < 0:
            return True
    has_dt = any(isinstance(v, datetime.date) for v in values)
    has_str = any(isinstance(v, str) and len(v) > 9 and v[4:5] == '-' for v in values)
    return has_dt and has_str


def run_script(api, text, g=None):
    bare_script, _ = api
    logs = []
    o = {'globals': dict(g or {}), 'logFn': logs.append, 'debug': True}
    with core.alarm(20):
        return bare_script.execute_script(bare_script.parse_script(text), o), logs


def one_relational(rnd, acc, api):
    bare_script, lib = api
    keypool = rnd.choice(KEYPOOLS)
    fields = rnd.sample(['a', 'b', 'c', 'a2', 'a3'], rnd.randint(2, 5))
    rows = gen_table(rnd, fields, rnd.randint(0, 12), keypool)
    kind = rnd.choice(['filter', 'sort', 'top', 'agg', 'join', 'calc'])
    if kind in ('filter', 'calc') and rnd.random() < 0.3:
        keypool = TRUTH_POOL
        rows = gen_table(rnd, fields, rnd.randint(0, 12), keypool)
    T = tbl_lit(rows)
    via_python = rnd.random() < 0.3
    case = {'kind': kind, 'rows': refval.enc(rows)}
    acc.cover('operations', kind + ('/python' if via_python else '/script'))

    def fail(sub, msg):
        acc.violation(f'{kind}:{sub}', msg, case)
    try:
        if kind == 'filter':
            f = rnd.choice(fields)
            thr = rnd.choice([1, 2, 'a'])
            expr = rnd.choice([f'{f} == {lit(thr)}', f'{f}', f'!{f}', f'{f} > {lit(thr)} && {f} != null', f'{f} == kk', f'len({f}) > 1 || {f} == null'])
            variables = {'kk': rnd.choice(keypool)} if 'kk' in expr else None
            case['expr'] = expr
            if via_python:
                r = bare_script.filter_data(copy.deepcopy(rows), expr, variables, {'globals': {}})
            else:
                vs = '' if variables is None else ', objectNew(' + lit('kk') + ', ' + lit(variables['kk']) + ')'
                r, _ = run_script(api, f'dd = {T}\nreturn dataFilter(dd, {lit(expr)}{vs})')
            exp = [row for row in rows if refval.truthy(ref_row_eval(expr, row, variables))]
            acc.case((kind, T, expr), len(rows) >= 2)
            if not rows_eq(r, exp):
                fail('result', f'{expr!r} over {rows!r:.300}: got {r!r:.300} expected {exp!r:.300}')
            elif variables is not None:
                # history: the variables of ONE call are gone afterwards - a later call without variables (and the script itself)
                # sees the global of that name again
                gk = rnd.choice(keypool)
                exp2 = [row for row in rows if refval.truthy(ref_row_eval(expr, row, {'kk': gk}))]
                if via_python:
                    g = {'kk': gk}
                    o = {'globals': g}
                    r1 = bare_script.filter_data(copy.deepcopy(rows), expr, variables, o)
                    r2 = bare_script.filter_data(copy.deepcopy(rows), expr, None, o)
                    kk_after = g.get('kk')
                else:
                    vs = ', objectNew(' + lit('kk') + ', ' + lit(variables['kk']) + ')'
                    (r2, kk_after, r1), _ = run_script(api, f'kk = {lit(gk)}\ndd = {T}\nr1 = dataFilter(dd, {lit(expr)}{vs})\nr2 = dataCalculatedField(arrayCopy(dd), \'zq\', \'1\', objectNew(\'kk\', 0))\n'
                                                            f'return arrayNew(dataFilter(dd, {lit(expr)}), kk, r1)')
                acc.count('variables_history_checks')
                # a variable of the call wins over a global of the same name (for that call only)
                if not rows_eq([{k: v for k, v in row.items() if k != 'zq'} for row in r1] if isinstance(r1, list) else r1, exp):
                    fail('variable-vs-global', f'{expr!r} with variables {variables!r} while the global kk is {gk!r}: got {r1!r:.300} expected {exp!r:.300}')
                elif not veq(kk_after, gk):
                    fail('variables-leak', f'global kk is {kk_after!r} after a call with variables {variables!r}; it was {gk!r}')
                elif not rows_eq([{k: v for k, v in row.items() if k != 'zq'} for row in r2] if isinstance(r2, list) else r2, exp2):
                    fail('variables-leak', f'{expr!r} without variables after a call with variables {variables!r} (global kk={gk!r}): got {r2!r:.300} expected {exp2!r:.300}')
        elif kind == 'sort':
            ks = rnd.sample(fields, rnd.randint(1, min(3, len(fields))))
            sorts = [[k, rnd.random() < 0.5] for k in ks]
            if rnd.random() < 0.2:
                sorts[0] = [sorts[0][0]]  # direction omitted = ascending
            case['sorts'] = sorts
            if via_python:
                r = bare_script.sort_data(copy.deepcopy(rows), sorts)
            else:
                S = 'arrayNew(' + ', '.join('arrayNew(' + ', '.join(lit(x) for x in s) + ')' for s in sorts) + ')'
                r, _ = run_script(api, f'dd = {T}\nreturn dataSort(dd, {S})')

            def c(r1, r2):
                for s in sorts:
                    x = rcmp(r1.get(s[0]), r2.get(s[0]))
                    x = -x if (len(s) > 1 and s[1]) else x
                    if x:
                        return x
                return 0
            exp = sorted(rows, key=functools.cmp_to_key(c))  # Python's sort is stable
            acc.case((kind, T, json.dumps(sorts)), len(rows) >= 2)
            if not rows_eq(r, exp):
                fail('result', f'sorts={sorts} over {rows!r:.300}: got {r!r:.300} expected {exp!r:.300}')
        elif kind == 'top':
            cats = rnd.sample(fields, rnd.randint(0, 2))
            k = rnd.randint(1, 3)
            case.update({'cats': cats, 'k': k})
            if ambiguous_keys([row.get(c) for row in rows for c in cats]):
                return
            if via_python:
                r = bare_script.top_data(copy.deepcopy(rows), k, cats or None)
            else:
                C = '' if not cats and rnd.random() < 0.5 else ', arrayNew(' + ', '.join(lit(x) for x in cats) + ')' if cats else ', null'
                r, _ = run_script(api, f'dd = {T}\nreturn dataTop(dd, {k}{C})')
            acc.case((kind, T, k, tuple(cats)), len(rows) >= 2)
            if not isinstance(r, list):
                fail('failed', f'dataTop({k}, {cats}) over {rows!r:.300} = {r!r}')
                return
            exp_groups = groups_of(rows, cats)
            got_groups = groups_of(r, cats)
            if len(exp_groups) != len(got_groups):
                fail('categories', f'{len(got_groups)} categories, expected {len(exp_groups)}: {r!r:.300}')
                return
            for key, g in exp_groups:
                mine = next((gg for kk, gg in got_groups if all(rcmp(a, b) == 0 for a, b in zip(kk, key))), None)
                if mine is None or not rows_eq(mine, g[:k]):
                    fail('prefix', f'category {key!r}: got {mine!r:.300} expected first {k} of {g!r:.300}')
                    return
        elif kind == 'agg':
            numrows = [{**row, 'm': rnd.choice([1, 2, 3.5, None, 10, -4, 0.25])} for row in rows]
            if rnd.random() < 0.25:
                # large magnitude, small spread (epoch milliseconds, order numbers): squares exceed 2**53
                big = rnd.choice([1700000000000, 10 ** 9, 123456789012, 10 ** 15 - 20, 4.5e15, -(10 ** 12)])
                numrows = [{**row, 'm': (big + rnd.randint(0, 9) + rnd.choice([0, 0, 0.5])) if rnd.random() < 0.9 else None} for row in rows]
            if rnd.random() < 0.1:
                for row in numrows:
                    row.pop('m', None) if rnd.random() < 0.5 else None
            cats = rnd.sample(fields, rnd.randint(0, 2))
            fn = rnd.choice(['count', 'sum', 'min', 'max', 'average', 'stddev'])
            textual = rnd.random() < 0.15
            if textual:
                # count / min / max are defined for every ordered value type: a string or a datetime measure (first / last name, first / last day)
                vals_pool = rnd.choice([['pear', 'apple', 'Zoe', 'fig', '', 'apple pie'],
                                        [datetime.datetime(2024, 1, 1), datetime.datetime(2023, 12, 31, 23, 59), datetime.datetime(2024, 6, 1, 12), datetime.datetime(1999, 1, 1)]])
                numrows = [{**row, 'm': rnd.choice(vals_pool + [None])} for row in rows]
                fn = rnd.choice(['count', 'min', 'max'])
                acc.count('non_numeric_measure_aggregations')
            named = rnd.random() < 0.6
            case.update({'rows': refval.enc(numrows), 'cats': cats, 'fn': fn})
            if ambiguous_keys([row.get(c) for row in numrows for c in cats]) or ('m' in cats):
                return
            measure = {'field': 'm', 'function': fn}
            if named:
                measure['name'] = 'out'
            agg = {'measures': [measure]}
            fn2 = rnd.choice(['count', 'sum', 'min', 'max', 'average', 'stddev'] if not textual else ['count', 'min', 'max'])
            two = rnd.random() < 0.5
            if two:
                agg['measures'].append({'field': 'm', 'function': fn2, 'name': 'out2'})
            if cats:
                agg['categories'] = cats
            if via_python:
                r = bare_script.aggregate_data(copy.deepcopy(numrows), agg)
            else:
                A = 'objectNew(' + (("'categories', arrayNew(" + ', '.join(lit(x) for x in cats) + '), ') if cats else '') + \
                    f"'measures', arrayNew(objectNew('field', 'm', 'function', {lit(fn)}" + (", 'name', 'out'" if named else '') + ')' + \
                    (f", objectNew('field', 'm', 'function', {lit(fn2)}, 'name', 'out2')" if two else '') + '))'
                r, _ = run_script(api, f'dd = {tbl_lit(numrows)}\nreturn dataAggregate(dd, {A})')
            acc.case((kind, tbl_lit(numrows), fn, tuple(cats), named), len(rows) >= 2)
            if not isinstance(r, list):
                fail('failed', f'dataAggregate({agg}) over {numrows!r:.300} = {r!r}')
                return
            out = 'out' if named else 'm'
            def measure_of(f, vals):
                if not vals:
                    return None
                if f == 'count':
                    return len(vals)
                if f == 'sum':
                    return math.fsum(vals)
                if f == 'min':
                    return min(vals)
                if f == 'max':
                    return max(vals)
                # exact rational arithmetic: the mean and the variance are rounded once, at the end (two-pass definition)
                fr = [fractions.Fraction(x) for x in vals]
                mu = sum(fr) / len(fr)
                if f == 'average':
                    return float(mu)
                return math.sqrt(float(sum((x - mu) ** 2 for x in fr) / len(fr)))
            exp = []
            for key, g in groups_of(numrows, cats):
                vals = [x['m'] for x in g if x.get('m') is not None]
                row = {**dict(zip(cats, key)), out: measure_of(fn, vals)}
                if two:
                    row['out2'] = measure_of(fn2, vals)
                exp.append(row)
            if len(r) != len(exp):
                fail('partition', f'{len(r)} aggregate rows, expected {len(exp)}: {r!r:.300} vs {exp!r:.300}')
                return
            for e in exp:
                if not any(row_eq(x, e, tol=True) for x in r):
                    fail('measure', f'{fn} over categories {cats}: expected row {e!r} not in {r!r:.400}')
                    return
                # count, min, max and average are exact: the average is the correctly rounded mean (inside [min, max], finite when they are)
                exact = [f for f, which in ((out, fn), ('out2', fn2 if two else None)) if which in ('count', 'min', 'max', 'average')]
                if exact and not any(all(refval.veq(x.get(c), e.get(c)) for c in cats) and all(x.get(f) == e.get(f) for f in exact) for x in r):
                    fail('measure', f'{[fn, fn2 if two else None]} over categories {cats}: expected exactly {({f: e.get(f) for f in exact})!r} in {r!r:.400}')
                    return
        elif kind == 'join':
            rf = rnd.sample(['a', 'b', 'c', 'a2', 'a3', 'z'], rnd.randint(1, 4))
            right = gen_table(rnd, rf, rnd.randint(0, 6), keypool)
            k = rnd.choice(fields)
            lflag = rnd.random() < 0.5
            rk = rnd.choice(rf) if rnd.random() < 0.3 else None
            case.update({'right': refval.enc(right), 'key': k, 'rkey': rk, 'flag': lflag})
            if ambiguous_keys([row.get(k) for row in rows] + [row.get(rk or k) for row in right]):
                return
            kx, rkx, jvars = k, rk, None
            if rnd.random() < 0.3:
                # the key expressions of BOTH sides may refer to the variables object of the call
                jvars = {'useKey': 1, 'other': 'unused'}
                kx, rkx = f'if(useKey, {k}, null)', (f'if(useKey, {rk}, null)' if (rk is not None or rnd.random() < 0.5) and (rk or k) else None)
                if rkx is not None and rk is None:
                    rkx = f'if(useKey, {k}, null)'
                acc.count('join_expressions_with_variables')
            if via_python:
                r = bare_script.join_data(copy.deepcopy(rows), copy.deepcopy(right), kx, rkx, lflag, jvars, {'globals': {}})
            else:
                r, _ = run_script(api, f'll = {T}\nrr = {tbl_lit(right)}\nreturn dataJoin(ll, rr, {lit(kx)}, {lit(rkx)}, {lit(lflag)}' + (f", objectNew('useKey', 1, 'other', 'unused'))" if jvars else ')'))
            acc.case((kind, T, tbl_lit(right), k, rk, lflag), len(rows) >= 2)
            if not isinstance(r, list):
                fail('failed', f'dataJoin over {rows!r:.200} / {right!r:.200} = {r!r}')
                return
            if not right and rows and jvars is None:
                # an empty right table: no left row has a partner - the same as a right table whose only key matches nothing (whatever
                # the flag decides for rows without a partner, it decides it for both)
                sentinel = [{(rk or k): 'no such key \u2603'}]
                if via_python:
                    r_s = bare_script.join_data(copy.deepcopy(rows), sentinel, k, rk, lflag, None, {'globals': {}})
                else:
                    r_s, _ = run_script(api, f'll = {T}\nrr = {tbl_lit(sentinel)}\nreturn dataJoin(ll, rr, {lit(k)}, {lit(rk)}, {lit(lflag)})')
                acc.count('empty_right_table_joins')
                if isinstance(r_s, list) and len(r_s) != len(r):
                    fail('pairing', f'empty right table: {len(r)} rows; a right table without any matching key: {len(r_s)} rows (flag {lflag})\nleft={rows!r:.300}')
                    return
            problem = join_oracle(rows, right, k, rk or k, r)
            if problem:
                fail('pairing', f'{problem}\nleft={rows!r:.300}\nright={right!r:.300}\nkey={k!r}/{rk!r}\nresult={r!r:.500}')
        else:
            f = rnd.choice(fields)
            expr = rnd.choice([f'{f} + 1', f"'v:' + {f}", f'if({f}, 1, 2)', f'{f} == kk'])
            variables = {'kk': rnd.choice(keypool)} if 'kk' in expr else None
            case['expr'] = expr
            if via_python:
                r = bare_script.add_calculated_field(copy.deepcopy(rows), 'nf', expr, variables, {'globals': {}})
            else:
                vs = '' if variables is None else ', objectNew(' + lit('kk') + ', ' + lit(variables['kk']) + ')'
                r, _ = run_script(api, f"dd = {T}\nreturn dataCalculatedField(dd, 'nf', {lit(expr)}{vs})")
            try:
                exp = [{**row, 'nf': ref_row_eval(expr, row, variables)} for row in rows]
            except (refeval.Domain, refeval.Unspecified):
                return
            acc.case((kind, T, expr), len(rows) >= 2)
            if not rows_eq(r, exp):
                # booleans as numbers (F14) in "f + 1"
                try:
                    g = dict(variables or {})
                    tree = refexpr.strip_groups(refexpr.parse(expr))
                    exp14 = [{**row, 'nf': RefEval(g, {'globals': g}, LIB, refeval.Propagate, builtins=True, bool_num=True).ev(tree, dict(row))} for row in rows]
                except Exception:  # pylint: disable=broad-except
                    exp14 = None
                if exp14 is not None and rows_eq(r, exp14):
                    acc.known_finding('F14', f'dataCalculatedField {expr!r} over {rows!r:.120}')
                else:
                    fail('result', f'{expr!r} over {rows!r:.300}: got {r!r:.300} expected {exp!r:.300}')
    except core.CaseTimeout:
        acc.timeouts += 1
    except Exception as exc:  # pylint: disable=broad-except
        fail('raised', f'{type(exc).__name__}: {exc}')


def join_oracle(left, right, lk, rk, result):
    """Pairing by key equality; left fields untouched; right fields under an injective, non-colliding renaming <name><n>=2>;
    unmatched left rows kept or dropped uniformly."""
    left_names = {f for row in left for f in row}
    right_names = []
    for row in right:
        for f in row:
            if f not in right_names:
                right_names.append(f)
    pos = 0
    unmatched_kept = None
    mapping = {}
    for lrow in left:
        matches = [x for x in right if rcmp(x.get(rk), lrow.get(lk)) == 0]
        if matches:
            for m in matches:
                if pos >= len(result):
                    return 'result has too few rows'
                out = result[pos]
                pos += 1
                for f, v in lrow.items():
                    if f not in out or not veq(out[f], v):
                        return f'left field {f!r} changed or missing in joined row {out!r}'
                extra = {f: v for f, v in out.items() if f not in lrow}
                if len(extra) != len(m):
                    # right fields whose name collides with a left field that this row lacks may land on that name only via renaming
                    pass
                for f, v in m.items():
                    if f in mapping:
                        nm = mapping[f]
                        if nm not in out or not veq(out[nm], v):
                            return f'right field {f!r} expected under {nm!r} in {out!r}'
                        continue
                    if f not in left_names:
                        cands = [f]
                    else:
                        cands = [nm for nm in out if nm.startswith(f) and nm[len(f):].isdigit() and int(nm[len(f):]) >= 2 and nm not in left_names]
                    cands = [nm for nm in cands if nm in out and veq(out[nm], v) and nm not in mapping.values()]
                    if not cands:
                        return f'right field {f!r}={v!r} not found under a non-colliding name in {out!r}'
                    if len(cands) == 1:
                        mapping[f] = cands[0]
                if set(out) - set(lrow) - set(mapping.values()) - {nm for nm in out if any(nm.startswith(f) for f in m)}:
                    return f'unexpected fields in joined row {out!r}'
        else:
            kept = pos < len(result) and row_eq(result[pos], lrow)
            # is the next row really this unmatched left row (and not the first pairing of the next left row)?
            if unmatched_kept is None:
                unmatched_kept = kept
            if unmatched_kept:
                if not kept:
                    return 'unmatched left rows are kept for some rows and dropped for others'
                pos += 1
    if pos != len(result):
        return f'result has {len(result)} rows, pairing explains {pos}'
    if len(set(mapping.values())) != len(mapping):
        return f'renaming is not injective: {mapping}'
    return None


# ------------------------------------------------------------------ CSV typed round trip

def csv_cell(v):
    if v is None:
        return 'null'
    if isinstance(v, bool):
        return 'true' if v else 'false'
    if isinstance(v, (int, float)):
        return refval.numtext(v)
    if isinstance(v, datetime.datetime):
        if v.hour == v.minute == v.second == v.microsecond == 0 and v.day % 2 == 0:
            return f'{v.year:04d}-{v.month:02d}-{v.day:02d}'
        return refval.dttext(v)
    s = v
    if s == '':
        return '""'
    if ',' in s or '"' in s:
        return '"' + s.replace('"', '""') + '"'
    return s


STR_POOL = ['abc  ', 'tail\t', '\tlead', 'mid  dle', 'True', 'FALSE', 'TRUE', 'False', 'Null', 'NULL', 'None', 'NaN', 'Infinity', '0x10', 'abc', 'x y', 'a,b', 'say "hi"', '2024-02-30', '2024-13-01', '12abc', 'true-ish', 'é', 'a.0,', '1.2.3', 'nan', 'T', '2024-01-01T99:00:00Z', '']


def gen_typed_table(rnd):
    ncols = rnd.randint(1, 5)
    cols = []
    for c in range(ncols):
        t = rnd.choice(['number', 'boolean', 'datetime', 'string', 'string'])
        cols.append((f'c{c}', t))
    rows = []
    for _ in range(rnd.randint(1, 12)):
        row = {}
        for name, t in cols:
            if rnd.random() < 0.15:
                row[name] = None
            elif t == 'number':
                row[name] = rnd.choice([0, 1, -1, 2.5, 1e21, 1e-7, 123456789.125, -0.5, 10, 1000000])
            elif t == 'boolean':
                row[name] = rnd.random() < 0.5
            elif t == 'datetime':
                row[name] = DT(rnd.randint(1971, 2090), rnd.randint(1, 12), rnd.randint(1, 28), *(rnd.choice([(0, 0, 0), (12, 30, 15), (23, 59, 59)])),
                               rnd.choice([0, 0, 250000]))
            else:
                row[name] = rnd.choice(STR_POOL)
        rows.append(row)
    # a string column must not start (first non-null value) with something that types as another kind, and '' reads back as ''
    for name, t in cols:
        if t == 'string':
            first = next((r[name] for r in rows if r[name] not in (None, '')), None)
            if first is None:
                for r in rows:
                    if r[name] is not None:
                        r[name] = 'abc'
    return cols, rows


def one_csv(rnd, acc, api):
    bare_script, lib = api
    cols, rows = gen_typed_table(rnd)
    header = ','.join(name for name, _ in cols)
    lines = [header] + [','.join(csv_cell(r[name]) for name, _ in cols) for r in rows]
    if len(rows) >= 2 and len(cols) >= 2 and rnd.random() < 0.15:
        # a short FIRST data row: its trailing fields are absent - the columns are typed by the rows that do have them
        k = rnd.randint(1, len(cols) - 1)
        lines[1] = ','.join(csv_cell(rows[0][name]) for name, _ in cols[:len(cols) - k])
        # (a short line whose remaining text is empty would be a blank line: keep at least one written cell)
        if lines[1].strip() == '':
            lines[1] = ','.join(csv_cell(rows[0][name]) for name, _ in cols)
        else:
            for name, _ in cols[len(cols) - k:]:
                rows[0][name] = None
            acc.count('csv_short_first_rows')
    text = '\n'.join(lines)
    case = {'csv': text}
    acc.case(text, len(rows) >= 2)
    nparts = rnd.choice([1, 1, 2, 3])
    if nparts == 1:
        args = [text]
    else:
        cuts = sorted(rnd.sample(range(1, len(lines)), min(nparts - 1, len(lines) - 1)))
        args = ['\n'.join(lines[a:b]) for a, b in zip([0] + cuts, cuts + [len(lines)])]
    g = {f's{i}': a for i, a in enumerate(args)}
    try:
        got, logs = run_script(api, 'return dataParseCSV(' + ', '.join(g) + ')', g)
    except Exception as exc:  # pylint: disable=broad-except
        acc.violation('csv:raised', f'{type(exc).__name__}: {exc}\n{text}', case)
        return
    if not isinstance(got, list):
        acc.violation('csv:parse-aborted', f'dataParseCSV returned {got!r}; log={logs[-2:]!r:.300}\n{text}', case)
        return
    if len(got) != len(rows):
        acc.violation('csv:row-count', f'{len(got)} rows, expected {len(rows)}\n{text}', case)
        return
    for want, have in zip(rows, got):
        for name, t in cols:
            w, h = want[name], have.get(name)
            ok = (h is None) if w is None else (veq(w, h) if not isinstance(w, datetime.datetime) else (isinstance(h, datetime.datetime) and refval.ndt(h) == w))
            if w == '' and t == 'string':
                ok = h == '' or h is None
            if isinstance(w, datetime.datetime) and w.tzinfo is None and datetime.datetime.fromtimestamp(w.timestamp()) != w:
                ok = True  # a wall-clock time the zone of the process skips (summer time starts): no instant to read back
            if not ok:
                acc.violation('csv:typed-value', f'column {name} ({t}): wrote {w!r} as {csv_cell(w)!r}, read back {h!r}\n{text}', case)
                return
    acc.count('csv_round_trips')
    acc.count('csv_cells', len(rows) * len(cols))
    if len(acc.samples) < 2 and len(rows) >= 3:
        acc.sample({'csv': lines[:6]})


def run_shard(spec, acc):
    api = _api()
    LIB.update(api[1])
    rnd = random.Random(spec['seed'] * 1000003 + spec['shard'] * 7919 + (107 if spec['part'] == 'relational' else 109))
    for _ in range(spec['n']):
        if spec['part'] == 'relational':
            one_relational(rnd, acc, api)
        else:
            one_csv(rnd, acc, api)
    if spec['part'] == 'csv':
        # directed witness: text that merely resembles a date is kept as a string
        bare_script, lib = api
        try:
            got, logs = run_script(api, "return dataParseCSV('d,n', '2024-02-30,1', '2024-02-31,2')")
        except Exception as exc:  # pylint: disable=broad-except
            got, logs = exc, []
        acc.case('directed:2024-02-30', True)
        if not (isinstance(got, list) and len(got) == 2 and got[0].get('d') == '2024-02-30' and got[0].get('n') == 1):
            acc.violation('csv:date-like-text', f"dataParseCSV('d,n','2024-02-30,1','2024-02-31,2') = {got!r}; {logs[-1:]!r:.300}", {'csv': 'd,n\n2024-02-30,1\n2024-02-31,2'})


        # ... also at the calendar boundaries, where the conversion to local time (not a field range check) is what fails
        must_stay = ['2024-02-30', '2024-13-01', '2023-02-29', '2024-04-31', '9999-12-31T23:59:59-12:00', '0001-01-01T00:00:00+14:00', '2024-01-01T25:00:00Z',
                     '2024-01-01T12:61:00Z', '0000-01-01', '2024-00-10']
        may_parse = ['9999-12-31T23:59:59Z', '0001-01-01T00:00:00Z', '9999-12-31', '0001-01-01', '2024-02-29', '2024-12-31T23:59:59.999+05:45']
        for t in must_stay + may_parse:
            for second in ('2024-01-05', 'zz', ''):
                if t in may_parse and second == 'zz':
                    continue  # a column typed datetime by its first cell legitimately rejects 'zz'
                try:
                    got, logs = run_script(api, f"return dataParseCSV('d,n', '{t},1', '{second},2')")
                except Exception as exc:  # pylint: disable=broad-except
                    got, logs = exc, []
                acc.case(('directed-date-like', t, second), True)
                acc.count('date_like_directed')
                ok = isinstance(got, list) and len(got) == 2 and got[0].get('n') == 1 and (got[0].get('d') == t or (t in may_parse and isinstance(got[0].get('d'), datetime.date)))
                if not ok:
                    acc.violation('csv:date-like-text', f"dataParseCSV('d,n','{t},1','{second},2') = {got!r:.300}; {logs[-1:]!r:.300}", {'csv': f'd,n\n{t},1\n{second},2'})
                    break


        # a date-only cell is the local midnight of that day - also on the days on which the zone of the process changes its offset
        for t in ('2024-03-10', '2024-11-03', '2023-03-12', '2024-03-31', '2024-10-27', '2024-04-07', '2024-09-29', '2024-01-01', '2024-06-15'):
            try:
                got, logs = run_script(api, f"return dataParseCSV('d,n', '{t},1', '2024-02-02,2')")
            except Exception as exc:  # pylint: disable=broad-except
                got, logs = exc, []
            acc.case(('directed-date-only', t), True)
            acc.count('date_only_cells_on_switch_days')
            y, mo, d = (int(x) for x in t.split('-'))
            dd = got[0].get('d') if isinstance(got, list) and got and isinstance(got[0], dict) else None
            if not (isinstance(dd, datetime.date) and (dd.year, dd.month, dd.day) == (y, mo, d) and (not isinstance(dd, datetime.datetime) or (dd.hour, dd.minute, dd.second, dd.tzinfo) == (0, 0, 0, None))):
                acc.violation('csv:typed-value', f"date-only cell {t!r} read back as {dd!r} (zone {os.environ.get('TZ')!r})", {'csv': f'd,n\n{t},1\n2024-02-02,2'})
                break


def replay(spec, acc):
    acc.note_inconclusive('replay by re-running: ./check C19 quick (cases carry the table and parameters)')
