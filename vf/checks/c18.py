"""C18 - lint is pure, never fails, and its warnings are semantically justified.
Monitors: frozen-model mutation sanitizer + deep equality + determinism around lint_script; execution oracle (apply the
edit a warning licenses, run both models on the real runtime, compare); RefLint for label/redefinition exactness."""
import copy
import glob
import json
import os
import random
import re

from .. import core, gen_prog, refval
from ..monitors import ModelMutated, freeze
from ..refast import pp
from .c08 import rand_stmts

W_UNUSED_VAR = re.compile(r'^Unused variable "(.*)" defined in function "(.*)" \(index (\d+)\)$')
W_UNUSED_ARG = re.compile(r'^Unused argument "(.*)" of function "(.*)" \(index (\d+)\)$')
W_UNUSED_LABEL_FN = re.compile(r'^Unused label "(.*)" in function "(.*)" \(index (\d+)\)$')
W_UNUSED_LABEL_G = re.compile(r'^Unused global label "(.*)" \(index (\d+)\)$')
W_POINTLESS_FN = re.compile(r'^Pointless statement in function "(.*)" \(index (\d+)\)$')
W_POINTLESS_G = re.compile(r'^Pointless global statement \(index (\d+)\)$')
W_UNKNOWN_FN = re.compile(r'^Unknown label "(.*)" in function "(.*)" \(index (\d+)\)$')
W_UNKNOWN_G = re.compile(r'^Unknown global label "(.*)" \(index (\d+)\)$')
W_REDEF_FN = re.compile(r'^Redefinition of function "(.*)" \(index (\d+)\)$')
W_REDEF_LABEL_FN = re.compile(r'^Redefinition of label "(.*)" in function "(.*)" \(index (\d+)\)$')
W_REDEF_LABEL_G = re.compile(r'^Redefinition of global label "(.*)" \(index (\d+)\)$')
W_DUP_ARG = re.compile(r'^Duplicate argument "(.*)" of function "(.*)" \(index (\d+)\)$')


def plan(tier, seed):
    n = 160 if tier == 'quick' else 8000
    specs = [{'part': 'models', 'n': n, 'shard': sh, 'timeout': 3000} for sh in range(16)]
    specs.append({'part': 'shipped', 'shard': 0})
    specs.append({'part': 'crossprocess', 'shard': 0, 'n': 150 if tier == 'quick' else 3000})
    return specs


def meta(tier):
    return {
        'level': 'exploration',
        'rule': ('seeded generated structured programs (with injected pointless statements), seeded jump-level models (user labels, duplicate '
                 'labels, dangling jumps, duplicate functions and arguments) and the shipped .bare scripts; lint runs on a frozen model '
                 '(twice); every "unused variable/argument" warning is tested by renaming, every "unused label" / "pointless statement" '
                 'warning by deleting, and re-executing edited and original model on the real runtime with identical globals; the '
                 'unknown-label and redefinition warning sets are compared with RefLint; the same models are linted in child interpreters under four other PYTHONHASHSEED values and must give identical lists. Non-trivial: a model with >= 1 warning whose '
                 'edit was executed, or with label facts to compare; distinct = distinct model.'),
        'exhaustive': False,
        'assumptions': ['one-level functions; models whose function names are duplicated are only checked for purity and RefLint facts (an edit '
                        'cannot be attributed to one definition)', 'runs that hit the statement budget are compared as log prefixes'],
    }


def _api():
    import bare_script
    from bare_script import model as model_mod
    from bare_script.library import SCRIPT_FUNCTIONS
    from bare_script.runtime import BareScriptRuntimeError
    return bare_script, model_mod, SCRIPT_FUNCTIONS, BareScriptRuntimeError


def ref_lint(model):
    """Label / definition facts lint must report."""
    facts = {'unknown': set(), 'redef_label': set(), 'redef_fn': set(), 'dup_arg': set()}

    def scope(stmts, where):
        defs, uses = {}, set()
        for st in stmts:
            (k, v), = st.items()
            if k == 'label':
                defs[v] = defs.get(v, 0) + 1
            elif k == 'jump':
                uses.add(v['label'])
        for lab in uses:
            if lab not in defs:
                facts['unknown'].add((where, lab))
        for lab, n in defs.items():
            if n > 1:
                facts['redef_label'].add((where, lab))
    scope(model['statements'], None)
    seen = {}
    for st in model['statements']:
        if 'function' in st:
            f = st['function']
            seen[f['name']] = seen.get(f['name'], 0) + 1
            scope(f['statements'], f['name'])
            args = f.get('args') or []
            for a in set(args):
                if args.count(a) > 1:
                    facts['dup_arg'].add((f['name'], a))
    for name, n in seen.items():
        if n > 1:
            facts['redef_fn'].add(name)
    return facts


def lint_facts(warnings):
    facts = {'unknown': set(), 'redef_label': set(), 'redef_fn': set(), 'dup_arg': set()}
    for w in warnings:
        m = W_UNKNOWN_FN.match(w)
        if m:
            facts['unknown'].add((m.group(2), m.group(1)))
            continue
        m = W_UNKNOWN_G.match(w)
        if m:
            facts['unknown'].add((None, m.group(1)))
            continue
        m = W_REDEF_LABEL_FN.match(w)
        if m:
            facts['redef_label'].add((m.group(2), m.group(1)))
            continue
        m = W_REDEF_LABEL_G.match(w)
        if m:
            facts['redef_label'].add((None, m.group(1)))
            continue
        m = W_REDEF_FN.match(w)
        if m:
            facts['redef_fn'].add(m.group(1))
            continue
        m = W_DUP_ARG.match(w)
        if m:
            facts['dup_arg'].add((m.group(2), m.group(1)))
    return facts


def rename_in_expr(e, old, new):
    (k, v), = e.items()
    if k == 'variable':
        return {'variable': new} if v == old else e
    if k == 'group':
        return {'group': rename_in_expr(v, old, new)}
    if k == 'unary':
        return {'unary': {'op': v['op'], 'expr': rename_in_expr(v['expr'], old, new)}}
    if k == 'binary':
        return {'binary': {'op': v['op'], 'left': rename_in_expr(v['left'], old, new), 'right': rename_in_expr(v['right'], old, new)}}
    if k == 'function':
        out = {'name': new if v['name'] == old else v['name']}
        if 'args' in v:
            out['args'] = [rename_in_expr(a, old, new) for a in v['args']]
        return {'function': out}
    return e


def find_function(model, name):
    fs = [st['function'] for st in model['statements'] if 'function' in st and st['function']['name'] == name]
    return fs[0] if len(fs) == 1 else None


def apply_edit(model, w):
    """Return (edited copy, kind) for warnings that license an edit, else (None, None)."""
    m2 = copy.deepcopy(model)
    m = W_UNUSED_VAR.match(w)
    if m:
        f = find_function(m2, m.group(2))
        if f is None:
            return None, None
        old, new = m.group(1), m.group(1) + '__renamed'
        ix = int(m.group(3))
        if ix >= len(f['statements']) or 'expr' not in f['statements'][ix] or f['statements'][ix]['expr'].get('name') != old:
            # the "variable" the warning names is not assigned where it points (e.g. it is the name of a function statement)
            return None, 'bad-index'
        for st in f['statements']:
            if 'expr' in st and st['expr'].get('name') == old:
                st['expr']['name'] = new
        return m2, 'rename-unused-variable'
    m = W_UNUSED_ARG.match(w)
    if m:
        f = find_function(m2, m.group(2))
        if f is None or f.get('args') is None or f['args'].count(m.group(1)) != 1:
            return None, None
        old, new = m.group(1), m.group(1) + '__renamed'
        f['args'] = [new if a == old else a for a in f['args']]
        for st in f['statements']:
            if 'expr' in st and st['expr'].get('name') == old:
                st['expr']['name'] = new
        return m2, 'rename-unused-argument'
    m = W_UNUSED_LABEL_FN.match(w)
    if m:
        f = find_function(m2, m.group(2))
        ix = int(m.group(3))
        if f is None or ix >= len(f['statements']) or f['statements'][ix].get('label') != m.group(1):
            return None, 'bad-index'
        del f['statements'][ix]
        return m2, 'delete-unused-label'
    m = W_UNUSED_LABEL_G.match(w)
    if m:
        ix = int(m.group(2))
        if ix >= len(m2['statements']) or m2['statements'][ix].get('label') != m.group(1):
            return None, 'bad-index'
        del m2['statements'][ix]
        return m2, 'delete-unused-label'
    m = W_POINTLESS_FN.match(w)
    if m:
        f = find_function(m2, m.group(1))
        ix = int(m.group(2))
        if f is None or ix >= len(f['statements']) or 'expr' not in f['statements'][ix] or 'name' in f['statements'][ix]['expr']:
            return None, 'bad-index' if f is not None else None
        del f['statements'][ix]
        return m2, 'delete-pointless-statement'
    m = W_POINTLESS_G.match(w)
    if m:
        ix = int(m.group(1))
        if ix >= len(m2['statements']) or 'expr' not in m2['statements'][ix] or 'name' in m2['statements'][ix]['expr']:
            return None, 'bad-index'
        del m2['statements'][ix]
        return m2, 'delete-pointless-statement'
    return None, None


def execute(model, init, api, limit=3000):
    bare_script, _, lib, rt_err = api
    logs = []
    g = copy.deepcopy(init)
    try:
        with core.alarm(20):
            r = ('ok', refval.canon(bare_script.execute_script(model, {'globals': g, 'logFn': logs.append, 'maxStatements': limit, 'fetchFn': lambda req: '', 'systemPrefix': 'sys/'})))
    except core.CaseTimeout:
        return None
    except rt_err as exc:
        msg = str(exc)
        r = ('budget', None) if msg.startswith('Exceeded maximum') else ('err', msg)
    except Exception as exc:  # pylint: disable=broad-except
        r = ('host-exception', type(exc).__name__)
    return r, logs, {k: refval.canon(v) for k, v in g.items() if k not in lib and not k.endswith('__renamed')}


def check_model(model, init, acc, api, name, run_edits=True):
    bare_script, model_mod, lib, rt_err = api
    txt = json.dumps(model, sort_keys=True)
    case = {'model': model, 'init': refval.enc(init), 'name': name}
    frozen = freeze(model)
    try:
        w1 = model_mod.lint_script(frozen)
        w2 = model_mod.lint_script(frozen)
        w3 = model_mod.lint_script(model)
    except ModelMutated as exc:
        acc.case(txt, True)
        acc.violation('lint-mutated-model', str(exc), case)
        return
    except Exception as exc:  # pylint: disable=broad-except
        acc.case(txt, True)
        acc.violation('lint-raised', f'{type(exc).__name__}: {exc}', case)
        return
    acc.count('lint_calls', 3)
    if json.dumps(model, sort_keys=True) != txt:
        acc.violation('lint-mutated-model', 'plain model changed', case)
        return
    if not isinstance(w1, list) or not all(isinstance(w, str) for w in w1):
        acc.violation('lint-result-type', repr(w1)[:300], case)
        return
    try:
        w4 = model_mod.lint_script(json.loads(txt))  # an equal model without any shared sub-object
    except Exception as exc:  # pylint: disable=broad-except
        acc.violation('lint-raised', f'on a JSON copy: {type(exc).__name__}: {exc}', case)
        return
    if w1 != w4:
        acc.violation('lint-depends-on-object-identity', f'the model as built: {w3!r:.300}; an equal JSON copy: {w4!r:.300}', case)
        return
    if w1 != w2 or w1 != w3:
        acc.violation('lint-nondeterministic', f'{w1!r:.300} / {w2!r:.300} / {w3!r:.300}', case)
        return
    acc.count('warnings_seen', len(w1))
    # exactness of label / redefinition warnings
    rf, lf = ref_lint(model), lint_facts(w1)
    for key in ('unknown', 'redef_label', 'redef_fn', 'dup_arg'):
        if rf[key] != lf[key]:
            acc.violation('lint-facts-differ:' + key, f'lint reports {sorted(map(str, lf[key]))}, the model has {sorted(map(str, rf[key]))}\nwarnings={w1!r:.600}', case)
            return
    acc.count('label_fact_comparisons', 4)
    dup_fn = bool(rf['redef_fn'])
    edits_run = 0
    if run_edits and not dup_fn:
        base = execute(model, init, api)
        if base is None:
            acc.timeouts += 1
        elif base[0][0] != 'host-exception':
            # a runtime "Unknown jump label" must have been predicted
            if base[0][0] == 'err' and base[0][1].startswith('Unknown jump label'):
                lab = re.search(r'"(.*)"', base[0][1]).group(1)
                if lab not in {l for _, l in lf['unknown']}:
                    if nested_dangling_jump(model['statements'], lab, 0):
                        # finding F23: lint does not look into function statements nested inside a function body
                        acc.known_finding('F23', f'{base[0][1]} raised inside a nested function statement; lint unknown set is {sorted(map(str, lf["unknown"]))}')
                        acc.case(txt, True)
                        return
                    acc.violation('runtime-unknown-label-not-predicted', f'{base[0][1]} but lint unknown set is {lf["unknown"]}', case)
                    return
                acc.count('runtime_unknown_label_predicted')
            for w in w1:
                edited, kind = apply_edit(model, w)
                if kind == 'bad-index':
                    acc.violation('warning-index-wrong', f'{w!r} does not point at the statement it names', case)
                    return
                if edited is None:
                    continue
                after = execute(edited, init, api)
                if after is None:
                    acc.timeouts += 1
                    continue
                edits_run += 1
                acc.count('edits_executed')
                acc.cover('edit_kinds', kind)
                same = after == base
                if not same and 'budget' in (after[0][0], base[0][0]):
                    n = min(len(after[1]), len(base[1]))
                    same = after[1][:n] == base[1][:n]
                if not same:
                    acc.violation('warning-not-justified', f'{w!r}: after {kind} the run changed: before={base!r:.400} after={after!r:.400}', dict(case, warning=w))
                    return
    acc.case(txt, edits_run >= 1 or any(rf[k] for k in rf))
    if len(acc.samples) < 2 and edits_run >= 2:
        acc.sample({'name': name, 'warnings': w1[:6], 'edits_executed': edits_run})


def nested_dangling_jump(stmts, lab, depth):
    """Is there a function statement at nesting depth >= 2 (a function statement inside a function body) whose own statement list jumps to
    `lab` without defining it?"""
    for st in stmts:
        if 'function' in st:
            body = st['function']['statements']
            if depth >= 1 and any('jump' in b and b['jump']['label'] == lab for b in body) and not any(b.get('label') == lab for b in body if 'label' in b):
                return True
            if nested_dangling_jump(body, lab, depth + 1):
                return True
    return False


def inject_pointless(rnd, prog):
    out = []
    for s in prog:
        if s[0] == 'func':
            out.append(['func', s[1], s[2], s[3], inject_pointless(rnd, s[4])])
            continue
        if rnd.random() < 0.15:
            out.append(['expr', rnd.choice([gen_prog.V('va'), gen_prog.B('+', gen_prog.V('vb'), gen_prog.N(1)), gen_prog.N(3), gen_prog.U('!', gen_prog.V('vc'))])])
        if rnd.random() < 0.1:
            # NOT pointless: a call hidden under unary / binary / group nodes has an effect
            side = gen_prog.C('systemLog', gen_prog.S('side effect'))
            out.append(['expr', rnd.choice([gen_prog.U('!', side), gen_prog.U('-', side), gen_prog.B('+', gen_prog.N(1), side), gen_prog.B('&&', gen_prog.N(1), side), gen_prog.B('+', side, gen_prog.N(0)),
                                            gen_prog.B('==', side, gen_prog.V('va')), gen_prog.B('*', {'group': side}, gen_prog.U('-', gen_prog.N(2))),
                                            {'group': side}, gen_prog.U('!', {'group': gen_prog.B('||', gen_prog.N(0), side)})])])
        out.append(s)
    return out


CALLEE_TEMPLATE = [
    ['func', 'applyfn', ['cb', 'xx'], False, [
        ['assign', 'hh', gen_prog.V('cb')],
        ['assign', 'unusedloc', gen_prog.N(5)],
        ['return', gen_prog.B('+', gen_prog.C('hh', gen_prog.V('xx')), gen_prog.C('cb', gen_prog.V('xx')))]]],
    ['func', 'twice', ['yy', 'unusedarg'], False, [['return', gen_prog.B('*', gen_prog.V('yy'), gen_prog.N(2))]]],
    ['expr', gen_prog.C('systemLog', gen_prog.B('+', gen_prog.S('callee '), gen_prog.C('applyfn', gen_prog.V('twice'), gen_prog.N(4))))],
    # names read only on the RIGHT of an operator whose left operand holds a call; expression statements whose only call sits on the LEFT of
    # a compound right operand (neither the names nor the statements are superfluous)
    ['func', 'scale', ['values', 'factor'], False, [
        ['assign', 'extra', gen_prog.N(3)],
        ['assign', 'bonus', gen_prog.B('+', gen_prog.C('arrayLength', gen_prog.V('values')), gen_prog.V('extra'))],
        ['return', gen_prog.B('+', gen_prog.B('*', gen_prog.C('arrayLength', gen_prog.V('values')), gen_prog.V('factor')), gen_prog.V('bonus'))]]],
    ['assign', 'bumps', gen_prog.N(0)],
    ['func', 'bump', ['by'], False, [['expr', gen_prog.C('systemGlobalSet', gen_prog.S('bumps'), gen_prog.B('+', gen_prog.V('bumps'), gen_prog.V('by')))], ['return', gen_prog.V('by')]]],
    ['expr', gen_prog.B('+', gen_prog.C('bump', gen_prog.N(1)), gen_prog.B('*', gen_prog.N(2), gen_prog.N(3)))],
    ['expr', gen_prog.B('*', gen_prog.C('bump', gen_prog.N(10)), gen_prog.U('-', gen_prog.B('-', gen_prog.V('bumps'), gen_prog.N(1))))],
    ['expr', gen_prog.B('-', gen_prog.U('-', gen_prog.C('bump', gen_prog.N(100))), gen_prog.B('+', gen_prog.B('*', gen_prog.N(2), gen_prog.N(2)), gen_prog.N(1)))],
    ['expr', gen_prog.C('systemLog', gen_prog.B('+', gen_prog.S('scaled '), gen_prog.B('+', gen_prog.C('scale', gen_prog.C('arrayNew', gen_prog.N(1), gen_prog.N(2)), gen_prog.N(5)), gen_prog.V('bumps'))))],
]


def run_models(spec, acc, api):
    bare_script = api[0]
    base = spec['seed'] * 1000003 + spec['shard'] * 7919 + 103
    if spec['shard'] == 0:
        # directed witness of finding F23 (a dangling jump inside a function statement that is nested in a function body)
        call = lambda name, *a: {'function': {'name': name, 'args': list(a)}}  # noqa: E731
        witness = {'statements': [{'function': {'name': 'f2', 'statements': [{'function': {'name': 'f1', 'args': ['x'], 'statements': [{'jump': {'label': 'D'}}]}}, {'return': {'expr': {'number': 1.0}}}]}},
                                  {'expr': {'name': 'n', 'expr': call('f2')}}, {'expr': {'name': 'm', 'expr': call('f1', {'variable': 'n'})}}]}
        check_model(witness, {'n': 0, 'm': 0, 'c': 0}, acc, api, 'nested-dangling-jump-witness')
    for i in range(spec['n']):
        rnd = random.Random(base + i)
        if rnd.random() < 0.5:
            gen = gen_prog.ProgGen(rnd, maxdepth=3, probes=False, typed=True)
            gen.shadow_params = True  # parameters that are also ASSIGNED in the body (under an if / in a loop) before they are read
            gen.expr_stmts = True
            prog = inject_pointless(rnd, gen_prog.fix_while_continue(gen.program(), False))
            if rnd.random() < 0.3:
                prog = copy.deepcopy(CALLEE_TEMPLATE) + prog
            model = bare_script.parse_script('\n'.join(pp(prog)))
            init = {'va': float(rnd.randint(0, 3)), 'vb': float(rnd.randint(0, 3)), 'vc': rnd.random() < 0.5, 'vd': False}
            name = f'structured{i}'
        else:
            # variable names are arbitrary strings at model level (the empty string and names with blanks are schema-valid)
            # (30 %: function statements nested inside function bodies - schema-valid, they bind GLOBAL functions when executed)
            stmts = rand_stmts(rnd, rnd.randint(1, 30), ['n', 'm', 'c'] if rnd.random() < 0.7 else ['n', '', 'c', 'x y', '0'], False, nested=rnd.random() < 0.3)
            if rnd.random() < 0.2:
                # function and label names are arbitrary strings at model level as well (braces, blanks, percent signs, empty)
                fmap = {'f1': rnd.choice(['on{click}', 'open{', '{}', 'fmt{0}', 'a b', '100%s', '']), 'f2': rnd.choice(['{x', 'g}', '%(n)s', 'f\\2'])}
                lmap = {'A': rnd.choice(['{A}', 'l {', '%d', 'exprLoop', 'expr', 'jump', 'return', 'label', 'function', 'include', 'name', 'args']), 'C': rnd.choice(['{}', 'subexprDone', 'statements'])}

                def ren(node):
                    if isinstance(node, dict):
                        if 'function' in node and 'statements' in node['function'] and node['function']['name'] in fmap:
                            node['function']['name'] = fmap[node['function']['name']]
                        elif 'function' in node and 'statements' not in node['function'] and node['function'].get('name') in fmap:
                            node['function']['name'] = fmap[node['function']['name']]
                        if 'label' in node and isinstance(node['label'], str) and node['label'] in lmap:
                            node['label'] = lmap[node['label']]
                        if 'jump' in node and node['jump'].get('label') in lmap:
                            node['jump']['label'] = lmap[node['jump']['label']]
                        for v in node.values():
                            ren(v)
                    elif isinstance(node, list):
                        for v in node:
                            ren(v)
                ren(stmts)
            if rnd.random() < 0.15:
                # include statements somewhere in the global list (an include cannot define a label of the includer's scope)
                for _ in range(rnd.randint(1, 2)):
                    stmts.insert(rnd.randint(0, len(stmts)), {'include': {'includes': [{'url': rnd.choice(['empty.bare', 'lib/empty.bare'])}] + ([{'url': 'sys.bare', 'system': True}] if rnd.random() < 0.3 else [])}})
            if rnd.random() < 0.15:
                # a model built by a program: the SAME expression object sits in two scopes (two functions, or a function and the
                # global list) - lint looks at values, not at object identity
                donors = [st for st in stmts if 'function' in st and st['function']['statements']]
                if len(donors) >= 1:
                    src = rnd.choice(donors)['function']['statements']
                    exprs = [st['expr']['expr'] for st in src if 'expr' in st] + [st['return']['expr'] for st in src if 'return' in st and 'expr' in st['return']]
                    if exprs:
                        shared_e = rnd.choice(exprs)
                        target = rnd.choice(donors)['function']['statements'] if rnd.random() < 0.6 else stmts
                        target.insert(rnd.randint(0, len(target)), {'expr': {'name': rnd.choice(['n', 'm']), 'expr': shared_e}})
                        target.append({'expr': {'expr': {'function': {'name': 'systemLog', 'args': [shared_e]}}}})
            if rnd.random() < 0.3:
                for st in stmts:
                    if 'function' in st and st['function'].get('args') and rnd.random() < 0.5:
                        a0 = st['function']['args']
                        st['function']['args'] = a0 + [a0[0]] + ([a0[-1], 'zz', 'zz'] if rnd.random() < 0.5 else [])
            if rnd.random() < 0.12:
                # a parameter may be NAMED like a keyword (true / false / null): as a variable the keyword wins, as a CALLEE the parameter is
                # looked up - a parameter that is only called is used
                fs = [st['function'] for st in stmts if 'function' in st and st['function'].get('args')]
                if fs:
                    fdef = rnd.choice(fs)
                    kw = rnd.choice(['true', 'false', 'null'])
                    if kw not in fdef['args']:
                        fdef['args'] = [kw] + fdef['args'][1:]
                        fdef['statements'].insert(0, {'expr': {'name': 'm', 'expr': {'function': {'name': kw, 'args': [{'variable': 'n'}]}}}})
                        ix_def = next(k for k, st in enumerate(stmts) if st.get('function') is fdef)
                        stmts.insert(ix_def + 1, {'expr': {'name': 'c', 'expr': {'function': {'name': fdef['name'], 'args': [{'variable': rnd.choice(['mathAbs', 'n'])}, {'number': 2.0}]}}}})
                        acc.count('keyword_named_parameters')
            model = {'statements': stmts}
            init = {'n': 0, 'm': rnd.choice([0, 2]), 'c': rnd.choice([0, 1])}
            name = f'jumplevel{i}'
        check_model(model, init, acc, api, name)


def run_deep(acc, api):
    """Model-level nesting far deeper than any text parses to (models are also built by programs): lint answers as for the shallow model
    of the same shape, wherever the deep expression sits. Only depths that validate_script and execute_script handle are asked for."""
    import sys
    bare_script = api[0]
    from bare_script.model import lint_script

    def nest(kind, depth):
        e = {'variable': 'n'}
        for _ in range(depth):
            if kind == 'group':
                e = {'group': e}
            elif kind == 'unary':
                e = {'unary': {'op': '-', 'expr': e}}
            elif kind == 'binary':
                e = {'binary': {'op': '+', 'left': e, 'right': {'number': 1.0}}}
            elif kind == 'binary-right':
                e = {'binary': {'op': '+', 'left': {'number': 1.0}, 'right': e}}
            else:
                e = {'function': {'name': 'mathAbs', 'args': [e]}}
        return e

    def models(kind, depth):
        e = nest(kind, depth)
        yield 'global-expr', {'statements': [{'expr': {'name': 'n', 'expr': {'number': 1.0}}}, {'expr': {'expr': e}}]}
        yield 'global-assign', {'statements': [{'expr': {'name': 'n', 'expr': {'number': 1.0}}}, {'expr': {'name': 'm', 'expr': e}}]}
        yield 'function-body', {'statements': [{'function': {'name': 'ff', 'args': ['n', 'q'], 'statements': [{'expr': {'expr': e}}, {'return': {'expr': e}}]}}]}
        yield 'jump-condition', {'statements': [{'expr': {'name': 'n', 'expr': {'number': 0.0}}}, {'jump': {'label': 'L', 'expr': e}}, {'label': 'L'}]}
    old_limit = sys.getrecursionlimit()
    for kind in ('group', 'unary', 'binary', 'binary-right', 'call'):
        shallow = {where: lint_script(m) for where, m in models(kind, 3)}
        for depth in (60, 200, 300, 450, 700, 900):
            sys.setrecursionlimit(1000)  # the host's default stack budget (the shard runner works with a larger one)
            for where, m in models(kind, depth):
                case = {'deep': kind, 'depth': depth, 'where': where}
                try:
                    bare_script.validate_script(m)
                    bare_script.execute_script(m, {'globals': {}})
                except RecursionError:
                    acc.count('deep_models_beyond_the_interpreter')
                    continue
                acc.case(('deep', kind, depth, where), True)
                acc.count('deep_model_lints')
                try:
                    with core.alarm(60):  # (a generous wall-clock watchdog: firing is a skipped case, counted, never a verdict)
                        got = lint_script(m)
                except core.CaseTimeout:
                    acc.timeouts += 1
                    acc.count('deep_model_lints_not_finished_in_60s')
                    continue
                except Exception as exc:  # pylint: disable=broad-except
                    acc.violation('lint-raised', f'{type(exc).__name__} for a {where} model with {depth} nested {kind} nodes (validate_script and execute_script handle it)', case)
                    continue
                if got != shallow[where]:
                    acc.violation('lint-depends-on-nesting-depth', f'{where}, {depth} nested {kind} nodes: {got!r:.300} vs depth 3: {shallow[where]!r:.300}', case)
            sys.setrecursionlimit(old_limit)


def run_shipped(acc, api):
    bare_script = api[0]
    files = sorted(glob.glob(os.path.join(core.REPO_SRC, 'bare_script', 'include', '*.bare')))
    if not files:
        acc.note_inconclusive('no shipped .bare scripts found')
    for f in files:
        with open(f, 'r', encoding='utf-8') as fh:
            model = bare_script.parse_script(fh.read())
        check_model(model, {}, acc, api, os.path.basename(f), run_edits=False)
        acc.cover('shipped_scripts', os.path.basename(f))


def run_crossprocess(spec, acc, api):
    """The same model always gives the same warnings - also in another process with another string-hash seed."""
    import subprocess
    import sys
    bare_script, model_mod, lib, rt_err = api
    rnd = random.Random(spec['seed'] * 7919 + 127)
    models = []
    for _ in range(spec['n']):
        stmts = rand_stmts(rnd, rnd.randint(6, 30), ['n', 'm', 'c'], False)
        # several unused and several dangling labels per scope
        stmts += [{'label': l} for l in rnd.sample(['U1', 'U2', 'U3', 'Zed', 'Alpha', 'mid'], 4)] + [{'jump': {'label': l}} for l in rnd.sample(['X1', 'X2', 'Beta', 'Yps'], 3)]
        models.append({'statements': stmts})
    here = [model_mod.lint_script(m) for m in models]
    os.makedirs(core.SCRATCH, exist_ok=True)
    path = os.path.join(core.SCRATCH, f'c18-models-{os.getpid()}.json')
    with open(path, 'w', encoding='utf-8') as fh:
        json.dump(models, fh)
    code = ("import json, sys; from bare_script.model import lint_script; "
            "print(json.dumps([lint_script(m) for m in json.load(open(sys.argv[1]))]))")
    try:
        for hs in ('1', '2', '3', '12345'):
            env = dict(os.environ, PYTHONHASHSEED=hs)
            out = subprocess.run([sys.executable, '-B', '-c', code, path], env=env, capture_output=True, text=True, timeout=600)
            if out.returncode != 0:
                acc.note_inconclusive('child lint process failed: ' + out.stderr[-300:])
                return
            there = json.loads(out.stdout)
            for i, (a, b) in enumerate(zip(here, there)):
                acc.case(('xproc', hs, i), True)
                if a != b:
                    acc.violation('lint-differs-between-processes', f'PYTHONHASHSEED=0 gives {a!r:.300}; PYTHONHASHSEED={hs} gives {b!r:.300}', {'model': models[i], 'init': refval.enc({}), 'name': 'crossprocess'})
                    return
            acc.count('cross_process_lint_comparisons', len(here))
    finally:
        try:
            os.unlink(path)
        except OSError:
            pass
    acc.sample({'cross_process': 'same models linted under PYTHONHASHSEED 0, 1, 2, 3, 12345', 'models': len(models)}, limit=1)


def run_shard(spec, acc):
    api = _api()
    if spec['part'] == 'crossprocess':
        run_crossprocess(spec, acc, api)
        return
    if spec['part'] == 'models':
        run_models(spec, acc, api)
    else:
        run_shipped(acc, api)
        run_deep(acc, api)


def replay(spec, acc):
    api = _api()
    case = spec['case']
    if 'deep' in case:
        run_deep(acc, api)
        return
    if 'model' not in case:
        acc.note_inconclusive('finding-level replay entry')
        return
    check_model(case['model'], refval.dec(case['init']), acc, api, case.get('name', 'replay'))
