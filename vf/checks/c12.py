"""C12 - one number type: int and float spellings of an integral number are interchangeable.
Differential monitor: every library function / operator is run twice on the same argument list, once with integral
numbers as int and once as float (recursively inside arrays/objects); results, failure behaviour, log output and
post-call arguments must agree under BareScript equality."""
import copy
import datetime
import json
import math
import random
import re

from .. import core, refval
from ..refexpr import OPS

SKIP = {'datetimeNow', 'datetimeToday', 'mathRandom', 'systemFetch'}
F15_FUNCS = {'mathRound', 'numberToFixed'}


def plan(tier, seed):
    nsh = 16
    n = 3000 if tier == 'quick' else 120000
    specs = [{'part': 'library', 'n': n, 'shard': sh} for sh in range(nsh)]
    specs.append({'part': 'operators', 'shard': 0})
    specs.append({'part': 'scripts', 'n': 300 if tier == 'quick' else 10000, 'shard': 1})
    return specs


def meta(tier):
    return {
        'level': 'exploration',
        'rule': ('every library function except clock/random/fetch x seeded argument lists (75% steered by the function\'s argument '
                 'model so that valid calls dominate, 25% unguided; 0-5 values of all types, numbers integral with |n| < 1e15 plus '
                 'fractions), each executed with the int spelling, with the float spelling (recursively inside arrays/objects) and twice with both spellings mixed inside one call; directed aggregations over measures near 1e15 and thousands of epoch-millisecond values (sums beyond 2**53); '
                 'all 14 binary and 2 unary operators on an integral operand grid in the four int/float spellings; scripts whose '
                 'for-loop index and float literals feed index/count/size/radix/digit positions. Non-trivial: the argument list '
                 'contains an integral number and the int-spelling call did not fail validation; distinct = distinct (function, arguments).'),
        'exhaustive': False,
        'assumptions': ['results above 2**53 are compared with 1e-12 relative tolerance (exact integers are not representable as floats there)',
                        'the argument models are read from the library only to steer generation, never as an oracle'],
    }


def _api():
    import bare_script
    import bare_script.library as L
    from bare_script.library import SCRIPT_FUNCTIONS
    from bare_script.runtime import BareScriptRuntimeError, evaluate_expression
    return bare_script, L, SCRIPT_FUNCTIONS, evaluate_expression, BareScriptRuntimeError


def conv(v, f):
    if isinstance(v, bool):
        return v
    if isinstance(v, (int, float)):
        if isinstance(v, float) and (v != v or v in (math.inf, -math.inf) or v != int(v)):
            return v
        return f(v) if abs(v) < 1e15 else v
    if isinstance(v, list):
        return [conv(x, f) for x in v]
    if isinstance(v, dict):
        return {k: conv(x, f) for k, x in v.items()}
    return v


def conv_mixed(v, rnd):
    """Every integral occurrence independently in the int or the float spelling (one call sees both spellings of one number)."""
    return conv(v, lambda x: (int if rnd.random() < 0.5 else float)(x))


def has_integral(v):
    if isinstance(v, bool):
        return False
    if isinstance(v, (int, float)):
        return v == v and abs(v) < 1e15 and v == int(v)
    if isinstance(v, list):
        return any(has_integral(x) for x in v)
    if isinstance(v, dict):
        return any(has_integral(x) for x in v.values())
    return False


def eq12(a, b):
    ta, tb = refval.rtype(a), refval.rtype(b)
    if ta != tb:
        return False
    if ta == 'number':
        if a != a and b != b:
            return True
        if a == b:
            return True
        try:
            big = max(abs(a), abs(b)) > 2 ** 53
            return big and abs(a - b) <= 1e-12 * max(abs(a), abs(b))
        except OverflowError:
            return False
    if ta == 'array':
        return len(a) == len(b) and all(eq12(x, y) for x, y in zip(a, b))
    if ta == 'object':
        return list(a.keys()) == list(b.keys()) and all(eq12(a[k], b[k]) for k in a)
    if ta in ('function', 'regex'):
        return True
    if ta == 'datetime':
        return refval.ndt(a) == refval.ndt(b)
    return a == b


def gen_any(rnd, depth=0):
    r = rnd.random()
    if r < 0.35:
        return rnd.choice([0, 1, 2, 3, -1, 5, 10, 36, 100, 1000, 2020, 12, 28, 31, 255, 65, 16, 7, 4])
    if r < 0.42:
        return rnd.choice([0.5, 1.5, -2.25, 1e20])
    if r < 0.5:
        return rnd.choice(['', 'a', 'abc', 'a,b', '10', 'ff', '2020-01-01', 'x y', '5" pipe', 'a\\"b', '\\', 'q"', "it's", '1.0', 'é"'])
    if r < 0.55:
        return None
    if r < 0.6:
        return rnd.choice([True, False])
    if r < 0.65:
        return datetime.datetime(2020, rnd.randint(1, 12), rnd.randint(1, 28))
    if r < 0.68:
        return re.compile('a+')
    if depth < 2 and r < 0.85:
        return [gen_any(rnd, depth + 1) for _ in range(rnd.randint(0, 4))]
    if depth < 2:
        return {rnd.choice(['a', 'b', 'c']): gen_any(rnd, depth + 1) for _ in range(rnd.randint(0, 3))}
    return 1


def gen_typed(rnd, t, lib, name=''):
    if t == 'number':
        return rnd.choice([0, 1, 2, 3, 4, 5, -1, 10, 16, 2, 36, 100, 2020, 0.5, 2.5, 1000, 23, 25, 30, 12, 28, 59, 999, 1, 2, 3])
    if t == 'string':
        return rnd.choice(['', 'a', 'abc', 'a,b,c', '10', 'ff', '2020-01-01', 'x y', 'a+', 'A', ' pad ', 'n,m\n1,2\n3,4', '{"a":[1,2]}', '5" pipe', 'a\\"b', 'q"'])
    if t == 'array':
        if name.startswith('data'):
            return [{'a': rnd.choice([1, 2, 3]), 'b': rnd.choice([1, 5, 'x', None])} for _ in range(rnd.randint(0, 5))]
        if rnd.random() < 0.25:
            return [rnd.choice([True, False, 0, 1, 1, 0, 2, None]) for _ in range(rnd.randint(1, 5))]
        return [gen_any(rnd, 1) for _ in range(rnd.randint(0, 5))]
    if t == 'object':
        return {rnd.choice(['a', 'b', 'c']): gen_any(rnd, 1) for _ in range(rnd.randint(0, 3))}
    if t == 'boolean':
        return rnd.choice([True, False])
    if t == 'datetime':
        return datetime.datetime(2020, rnd.randint(1, 12), rnd.randint(1, 28), rnd.randint(0, 23))
    if t == 'regex':
        return re.compile(rnd.choice(['a+', '(b)(c)?', ',']))
    if t == 'function':
        return rnd.choice([lib['systemCompare'], lib['systemBoolean'], host_minus, host_minus, host_half])
    return gen_any(rnd, 1)


def host_minus(args, options):  # pylint: disable=unused-argument
    """Comparison / callback function whose RESULT is spelled like its operands (int for ints, float for floats)."""
    a, b = (list(args) + [0, 0])[:2]
    if isinstance(a, (int, float)) and isinstance(b, (int, float)) and not isinstance(a, bool) and not isinstance(b, bool):
        return a - b
    return 0


def host_half(args, options):  # pylint: disable=unused-argument
    a = args[0] if args else 0
    return a * 2 if isinstance(a, (int, float)) and not isinstance(a, bool) else 0


refval.register_fn('host_minus', host_minus)
refval.register_fn('host_half', host_half)


def argmodel(fn, L):
    code = getattr(fn, '__code__', None)
    if code is None:
        return None
    for n in code.co_names:
        if n.endswith('_ARGS') and hasattr(L, n):
            return getattr(L, n)
    return None


def call(name, args, api):
    _, L, lib, evaluate_expression, rt_err = api
    logs = []
    g = {f'v{i}': a for i, a in enumerate(args)}
    g[name] = lib[name]
    opts = {'globals': g, 'logFn': logs.append, 'debug': True}
    expr = {'function': {'name': name, 'args': [{'variable': f'v{i}'} for i in range(len(args))]}}
    try:
        with core.alarm(10):
            r = evaluate_expression(expr, opts, None, False)
        failed = any(l.startswith(f'BareScript: Function "{name}" failed') for l in logs)
        out = [l for l in logs if not l.startswith('BareScript: Function')]
        # the documented report of a rejected argument (`Invalid "name" argument value, <JSON>`) shows a number as a number: 5 and 5.0 read alike
        out += [l for l in logs if l.startswith('BareScript: Function') and 'Invalid "' in l]
        return ('ok', r, failed, out)
    except core.CaseTimeout:
        return ('timeout', None, False, [])
    except rt_err as exc:
        return ('rterr', str(exc), False, [])
    except Exception as exc:  # pylint: disable=broad-except
        return ('exc', type(exc).__name__, False, [])


def same_outcome(r1, r2):
    if r1[0] != r2[0] or r1[2] != r2[2]:
        return False
    if r1[0] == 'ok':
        return eq12(r1[1], r2[1]) and len(r1[3]) == len(r2[3]) and all(x == y for x, y in zip(r1[3], r2[3]))
    return True


def classify(name, args, r1, r2):
    """F15: mathRound/numberToFixed with digits >= 23 - 10 ** digits exact for int, rounded for float."""
    if not (name in F15_FUNCS and len(args) >= 2 and isinstance(args[1], (int, float)) and not isinstance(args[1], bool) and args[1] >= 23):
        return None
    if args[1] >= 309 and r1[0] == r2[0] == 'ok' and not r1[2] and r2[2]:
        return 'F15'  # 10 ** digits overflows for the float spelling only
    if r1[0] == r2[0] == 'ok' and r1[2] == r2[2]:
        x, y = r1[1], r2[1]
        try:
            fx, fy = float(x), float(y)
        except (TypeError, ValueError):
            return None
        if fx == fy or abs(fx - fy) <= 1e-12 * max(abs(fx), abs(fy), 1e-300):
            return 'F15'
    return None


def fresh_int(v):
    """The int spelling as a NEW object every time (as numberParseInt, arrayLength, jsonParse produce it) - never a cached constant."""
    return int(str(int(v)))


def one_case(name, args, acc, api):
    a1 = conv(copy.deepcopy(args), fresh_int)
    a2 = conv(copy.deepcopy(args), float)
    r1 = call(name, a1, api)
    r2 = call(name, a2, api)
    if 'timeout' in (r1[0], r2[0]):
        acc.timeouts += 1
        return
    acc.case((name, repr(refval.canon(args))), has_integral(args) and not r1[2])
    acc.cover('functions', name)
    acc.count('calls_succeeded' if (r1[0] == 'ok' and not r1[2]) else 'calls_failed')
    case = {'fn': name, 'args': refval.enc(args)}
    if not same_outcome(r1, r2):
        fid = classify(name, args, r1, r2)
        if fid:
            acc.known_finding(fid, f'{name}({args!r:.120}) int->{r1[1]!r:.60} float->{r2[1]!r:.60}')
        else:
            acc.violation('int-float-result-differs', f'{name}({args!r:.300}): int spelling -> {r1!r:.300}; float spelling -> {r2!r:.300}', case)
        return
    if not eq12(a1, a2):
        acc.violation('int-float-argument-effect-differs', f'{name}({args!r:.300}): arguments after the call {a1!r:.300} vs {a2!r:.300}', case)
        return
    # both spellings inside ONE call (jsonParse rows next to literal rows): still the same outcome
    for k in range(2):
        a3 = conv_mixed(copy.deepcopy(args), random.Random(refval_hash(name, args) + k))
        shown = repr(a3)
        r3 = call(name, a3, api)
        if r3[0] == 'timeout':
            acc.timeouts += 1
            return
        acc.count('mixed_spelling_calls')
        if not same_outcome(r3, r2):
            if classify(name, args, r3, r2) or classify(name, args, r1, r3):
                acc.known_finding('F15', f'{name}({args!r:.120}) mixed spelling')
            else:
                acc.violation('mixed-int-float-result-differs', f'{name}({shown:.300}): mixed spellings -> {r3!r:.300}; float spelling -> {r2!r:.300}', case)
            return
        if not eq12(a3, a2):
            acc.violation('mixed-int-float-argument-effect-differs', f'{name}({shown:.300}): arguments after the call {a3!r:.300} vs {a2!r:.300}', case)
            return


def refval_hash(name, args):
    return core.case_hash((name, repr(refval.canon(args))))


def run_library(spec, acc, api):
    _, L, lib, _, _ = api
    names = sorted(set(lib) - SKIP)
    base = spec['seed'] * 1000003 + spec['shard'] * 7919 + 61
    rnd = random.Random(base)
    for it in range(spec['n']):
        name = names[(it + spec['shard'] * 7) % len(names)] if it % 2 == 0 else rnd.choice(names)
        am = argmodel(lib[name], L)
        if am and rnd.random() < 0.75:
            args = []
            for a in am:
                if a.get('lastArgArray'):
                    args.extend(gen_any(rnd, 1) for _ in range(rnd.randint(0, 3)))
                    break
                if rnd.random() < 0.15 and (a.get('nullable') or 'default' in a or a.get('type') is None):
                    break
                args.append(gen_typed(rnd, a.get('type'), lib, name) if rnd.random() < 0.9 else gen_any(rnd))
        elif name in ('arrayNew', 'objectNew', 'mathMax', 'mathMin', 'stringFromCharCode', 'dataParseCSV', 'schemaParse'):
            if name == 'objectNew':
                args = [x for _ in range(rnd.randint(0, 3)) for x in (rnd.choice(['a', 'b', 'c']), gen_any(rnd, 1))]
            elif name == 'stringFromCharCode':
                args = [rnd.choice([65, 66, 97, 8364, 128512, 0.5, -1, 'a']) for _ in range(rnd.randint(0, 4))]
            elif name == 'dataParseCSV':
                args = [rnd.choice(['a,b', '1,2', '3,x', 'a,b\n1,2', None, 5]) for _ in range(rnd.randint(0, 3))]
            else:
                args = [gen_any(rnd, 1) for _ in range(rnd.randint(0, 5))]
        else:
            args = [gen_any(rnd) for _ in range(rnd.randint(0, 5))]
        one_case(name, args, acc, api)
    # directed witnesses (digit counts >= 23 for finding F15; index/count positions)
    big = 999999999999999
    for nrows, step in ((3, 1), (11, 0), (11, 1), (13, 0), (13, 7), (27, 0), (27, 3)):
        rows = [{'a': big - step * (i % 3), 'c': i % 2, 'd': 1} for i in range(nrows)]
        for fn in ('average', 'stddev', 'sum', 'min', 'max', 'count'):
            one_case('dataAggregate', [copy.deepcopy(rows), {'measures': [{'field': 'a', 'function': fn}]}], acc, api)
            one_case('dataAggregate', [copy.deepcopy(rows), {'categories': ['c'], 'measures': [{'field': 'a', 'function': fn}, {'field': 'd', 'function': fn, 'name': 'e'}]}], acc, api)
        one_case('dataTop', [copy.deepcopy(rows), 2, ['c']], acc, api)
    stamps = [{'t': 1700000000000 + 86400000 * i, 'c': i % 3} for i in range(spec['n'] // 2 if spec['n'] < 8000 else 6500)]
    for fn in ('average', 'stddev', 'sum'):
        one_case('dataAggregate', [copy.deepcopy(stamps), {'categories': ['c'], 'measures': [{'field': 't', 'function': fn}]}], acc, api)
    # large integers (still below 1e15) with few digits: value * 10 ** digits passes 2**53
    rb = random.Random(base + 5)
    for _ in range(60):
        v = rb.choice([1, -1]) * rb.randint(10 ** 11, 10 ** 15 - 1)
        d = rb.randint(0, 4)
        one_case('mathRound', [v, d], acc, api)
        one_case('numberToFixed', [v, d], acc, api)
        one_case('numberToFixed', [v, d, True], acc, api)
    for v, d in ((983895159459682, 2), (95, 20), (5, 17), (123456789012345, 1), (999999999999999, 3)):
        one_case('mathRound', [v, d], acc, api)
        one_case('numberToFixed', [v, d], acc, api)
    for pair in ([1000, 1000], [123456789, 123456789], [257, 257], [-6, -6], [10 ** 14, 10 ** 14], [[1000], [1000]], [1000, 1001],
                 [1700000000000, 1700000000001], [10 ** 15, 10 ** 15 + 1], [2 ** 52, 2 ** 52 + 1], [-1700000000001, -1700000000000], [[1700000000000], [1700000000001]]):
        one_case('systemIs', list(pair), acc, api)
        one_case('systemCompare', list(pair), acc, api)
    for arr in ([3, 1, 2], [10, 9, 8, 7, 1], [2, 2, 1, 3, 0, -1], [5, 4]):
        one_case('arraySort', [list(arr), host_minus], acc, api)
        one_case('arrayIndexOf', [list(arr), host_half], acc, api)
    for name, args in [('numberToFixed', [255, 28]), ('mathRound', [2.5, 25]), ('arraySet', [[1, 2, 3], 1, 9]), ('dataTop', [[{'a': 1}, {'a': 2}], 1]),
                       ('arrayNewSize', [3, 7]), ('stringRepeat', ['ab', 3]), ('numberParseInt', ['ff', 16]), ('datetimeNew', [2020, 14, 35, 25, 61, 61, 1001]),
                       ('arraySlice', [[1, 2, 3, 4], 1, 3]), ('stringSlice', ['abcdef', 2, 4]), ('stringCharCodeAt', ['abc', 1]), ('jsonStringify', [{'a': [1]}, 2]),
                       ('arrayGet', [[5, 6, 7], 2]), ('arrayDelete', [[5, 6, 7], 0]), ('arrayIndexOf', [[1, 2, 1], 1, 1]), ('arrayLastIndexOf', [[1, 2, 1], 1, 1]),
                       ('stringIndexOf', ['abcabc', 'c', 3]), ('arrayIndexOf', [[True, 1, 0], 1]), ('arrayIndexOf', [[False, 0, 1], 0]), ('arrayLastIndexOf', [[1, True], 1]), ('arrayLastIndexOf', [[0, False], 0]),
                       ('arrayIndexOf', [[[True], [1]], [1]]), ('mathMax', [True, 1, 0]), ('mathMin', [False, 0, 1]), ('arraySort', [[1, True, 0, False, 1]]), ('systemCompare', [1, True]), ('jsonStringify', [['5" pipe', 1, 'x']]), ('jsonStringify', [{'k"': 2, 'z': ['\\', 3]}]), ('stringNew', [['a"', 7, 'b']]), ('arrayJoin', [[['q"', 1, 'r']], ',']), ('stringLastIndexOf', ['abcabc', 'c', 3]), ('stringFromCharCode', [72, 105]), ('stringNew', [1234567890123]), ('stringNew', [10 ** 14 + 7]), ('stringNew', [999999999999999]), ('stringNew', [-1234567890123456]), ('arrayJoin', [[1234567890123, 999999999999999, 12], ',']), ('jsonStringify', [[1234567890123, {'k': 10 ** 14 + 7}]]), ('stringLength', [123456789012345]), ('stringFromCharCode', [55357, 56832]), ('stringFromCharCode', [56832, 55357, 65]), ('stringFromCharCode', [55357]), ('arrayIndexOf', [[1700000000000, 1700000000001], 1700000000001]), ('arrayLastIndexOf', [[1700000000001, 1700000000000], 1700000000001]), ('arraySort', [[1700000000001, 1700000000000, 1700000000002]]), ('mathMax', [1700000000000, 1700000000001]), ('mathMin', [1700000000001, 1700000000000]), ('mathLog', [8, 2])]:
        one_case(name, args, acc, api)
    acc.sample({'fn': 'arraySet', 'args': [[1, 2, 3], 1, 9], 'spellings': ['index as int 1', 'index as float 1.0']}, limit=1)


def run_operators(acc, api):
    _, _, _, evaluate_expression, rt_err = api
    grid = [0, 1, 2, 3, -1, -2, 7, 10, 100, 12345, -7, 2 ** 20, 999999]
    for op in OPS:
        e = {'binary': {'op': op, 'left': {'variable': 'aa'}, 'right': {'variable': 'bb'}}}
        for a in grid:
            for b in grid:
                if op == '**' and abs(b) > 64:
                    continue
                res = []
                for fa, fb in ((int, int), (float, float), (int, float), (float, int)):
                    try:
                        res.append(('ok', evaluate_expression(e, {'globals': {'aa': fa(a), 'bb': fb(b)}}, None, False)))
                    except Exception as exc:  # pylint: disable=broad-except
                        res.append(('exc', type(exc).__name__))
                acc.case((op, a, b), True)
                acc.cover('operators', op)
                if not all(r[0] == res[0][0] and (r[0] != 'ok' or eq12(r[1], res[0][1])) for r in res):
                    acc.violation('operator-int-float-differs', f'{a} {op} {b}: int/int, float/float, int/float, float/int -> {res!r:.300}', {'op': op, 'a': a, 'b': b})
    # an integral LEFT operand in both spellings against fractional right operands (negative base ** fraction, % and / by fractions)
    for op in OPS:
        e = {'binary': {'op': op, 'left': {'variable': 'aa'}, 'right': {'variable': 'bb'}}}
        for a in grid:
            for b in (0.5, -0.5, 1.5, 0.25, -2.5, 1e-3):
                for order in ('ab', 'ba'):
                    res = []
                    for fa in (int, float):
                        g = {'aa': fa(a), 'bb': b} if order == 'ab' else {'aa': b, 'bb': fa(a)}
                        try:
                            res.append(('ok', evaluate_expression(e, {'globals': g}, None, False)))
                        except Exception as exc:  # pylint: disable=broad-except
                            res.append(('exc', type(exc).__name__))
                    acc.case((op, a, b, order), True)
                    for r in res:
                        if r[0] == 'ok' and not refval.is_value(r[1]):
                            acc.violation('operator-result-not-a-value', f'{a} {op} {b} ({order}): {r[1]!r}', {'op': op, 'a': a, 'b': b})
                    if not (res[0][0] == res[1][0] and (res[0][0] != 'ok' or eq12(res[0][1], res[1][1]))):
                        acc.violation('operator-int-float-differs', f'{a} {op} {b} ({order}): int spelling {res[0]!r:.120}, float spelling {res[1]!r:.120}', {'op': op, 'a': a, 'b': b})
    # trivial bases with huge exponents, huge bases with trivial exponents (both spellings)
    for a, b in [(1, 1024), (1, 2000), (0, 5000), (-1, 1025), (-1, 2048), (2, 1023), (2, 1024), (10, 308), (10, 309), (7, 0), (10 ** 14, 1), (10 ** 14, 0)]:
        e = {'binary': {'op': '**', 'left': {'variable': 'aa'}, 'right': {'variable': 'bb'}}}
        res = []
        for fa, fb in ((fresh_int, fresh_int), (float, float), (fresh_int, float), (float, fresh_int)):
            try:
                res.append(('ok', evaluate_expression(e, {'globals': {'aa': fa(a), 'bb': fb(b)}}, None, False)))
            except Exception as exc:  # pylint: disable=broad-except
                res.append(('exc', type(exc).__name__))
        acc.case(('pow-edge', a, b), True)

        def same_pow(x, y):
            if x[0] != y[0]:
                return False
            if x[0] != 'ok' or x[1] is None or y[1] is None:
                return x[1] is None and y[1] is None if x[0] == 'ok' else True
            try:
                return float(x[1]) == float(y[1])
            except OverflowError:
                return False
        # an exact huge integer (int spelling) and null / inf-overflow (float spelling) differ legitimately only beyond the float range
        if a in (0, 1, -1) or abs(b) <= 1 or (abs(a) ** abs(b) < 2 ** 1000):
            if not all(same_pow(r, res[0]) for r in res):
                acc.violation('operator-int-float-differs', f'{a} ** {b}: int/int, float/float, int/float, float/int -> {res!r:.300}', {'op': '**', 'a': a, 'b': b})
    # datetime arithmetic with large millisecond counts (up to 1e15): the offset in both spellings, both operand orders
    base_dt = [datetime.datetime(1970, 1, 1), datetime.datetime(2000, 2, 29, 12, 30, 15, 123000), datetime.date(1999, 12, 31)]
    for n in [1, 1001, 86400000, 72000000000001, 123456789012345, 99999999999999, 999999999999999, -123456789012345, 2 ** 46 + 1, 10 ** 14 + 7, 31536000000 * 1500 + 1]:
        for d in base_dt:
            for op, order in (('+', 'dn'), ('+', 'nd'), ('-', 'dn')):
                e = {'binary': {'op': op, 'left': {'variable': 'aa'}, 'right': {'variable': 'bb'}}}
                res = []
                for fn_ in (int, float):
                    g = {'aa': d, 'bb': fn_(n)} if order == 'dn' else {'aa': fn_(n), 'bb': d}
                    try:
                        res.append(('ok', evaluate_expression(e, {'globals': g}, None, False)))
                    except Exception as exc:  # pylint: disable=broad-except
                        res.append(('exc', type(exc).__name__))
                acc.case(('dt', op, order, n, repr(d)), True)
                acc.count('datetime_offset_spellings')
                if res[0][0] != res[1][0] or (res[0][0] == 'ok' and not (res[0][1] == res[1][1] if isinstance(res[0][1], datetime.date) and isinstance(res[1][1], datetime.date) else eq12(res[0][1], res[1][1]))):
                    acc.violation('operator-int-float-differs', f'{d!r} {op} {n} ({order}): int spelling {res[0]!r:.120}, float spelling {res[1]!r:.120}', {'op': op, 'a': repr(d), 'b': n})
    for op in '!-':
        for a in grid:
            e = {'unary': {'op': op, 'expr': {'variable': 'aa'}}}
            r1 = evaluate_expression(e, {'globals': {'aa': a}}, None, False)
            r2 = evaluate_expression(e, {'globals': {'aa': float(a)}}, None, False)
            acc.case(('u' + op, a), True)
            if not eq12(r1, r2):
                acc.violation('operator-int-float-differs', f'{op}{a}: {r1!r} vs {r2!r}', {'op': op, 'a': a})
    acc.sample({'operator_grid': grid, 'spellings': ['int/int', 'float/float', 'int/float', 'float/int']}, limit=1)


SCRIPT_TEMPLATES = [
    "function cmp(a, b):\n    return a - b\nendfunction\nfunction desc(a, b):\n    return if(a < b, 1, if(a > b, 0 - 1, 0))\nendfunction\narr = arrayNew(3, 1, {K}, 7, 2)\nreturn arrayNew(arraySort(arrayCopy(arr), cmp), arraySort(arrayCopy(arr), desc), arraySort(arr))",
    "arr = arrayNew(10, 20, 30, 40)\nout = arrayNew()\nfor v, i in arr:\n    arrayPush(out, arrayGet(arr, i), stringCharCodeAt('abcd', i), arraySlice(arr, i), stringSlice('abcd', i))\n    arraySet(arr, i, v + {K})\nendfor\nreturn arrayNew(out, arr)",
    "arr = arrayNewSize({K}, 'x')\narraySet(arr, {K} - 1, 'last')\nreturn arrayNew(arr, stringRepeat('ab', {K}), numberToFixed(3.14159, {K}), numberParseInt('101', {K} + 2), stringFromCharCode(60 + {K}))",
    "dd = arrayNew(objectNew('a', 1, 'c', 'x'), objectNew('a', 2, 'c', 'x'), objectNew('a', 3, 'c', 'y'))\nreturn arrayNew(dataTop(dd, {K}), dataTop(dd, {K}, arrayNew('c')), jsonStringify(dd, {K}), mathRound(2.34567, {K}), arrayIndexOf(arrayNew(1, 2, 1), 1, {K} - 1))",
    "s = 'hello world'\nreturn arrayNew(stringIndexOf(s, 'o', {K}), stringLastIndexOf(s, 'o', {K} + 4), arrayLastIndexOf(arrayNew(1, 2, 1, 2), 2, {K}), datetimeNew(2020, {K}, {K} * 10, {K}), mathLog(8, {K} + 1))",
]


def run_scripts(spec, acc, api):
    bare_script = api[0]
    rnd = random.Random(spec['seed'] * 7919 + 67)
    for i in range(spec['n']):
        k = rnd.choice([1, 2, 3, 4])
        text = rnd.choice(SCRIPT_TEMPLATES).replace('{K}', str(k))
        # the float spelling is what the parser produces for literals; the int spelling is injected by a host global
        text_host = text.replace(str(k), 'kk') if False else None
        try:
            res_float = bare_script.execute_script(bare_script.parse_script(text), {'globals': {}})
        except Exception as exc:  # pylint: disable=broad-except
            acc.violation('script-raised', f'{type(exc).__name__}: {exc}\n{text}', {'text': text})
            continue
        # the same script with its numeric literals turned into ints on the model
        model = bare_script.parse_script(text)
        intify(model)
        res_int = bare_script.execute_script(model, {'globals': {}})
        acc.case(text, True)
        acc.count('script_pairs')
        if not eq12(res_int, res_float):
            acc.violation('script-int-float-differs', f'float literals -> {res_float!r:.400}\nint literals -> {res_int!r:.400}\n{text}', {'text': text})
        elif has_null_where_value_expected(res_float):
            acc.violation('float-literal-rejected', f'{res_float!r:.400}\n{text}', {'text': text})
    acc.sample({'script': SCRIPT_TEMPLATES[0].replace('{K}', '2').split('\n')}, limit=1)


def intify(node):
    if isinstance(node, dict):
        if 'number' in node and isinstance(node['number'], float) and node['number'] == int(node['number']):
            node['number'] = int(node['number'])
        for v in node.values():
            intify(v)
    elif isinstance(node, list):
        for v in node:
            intify(v)


def has_null_where_value_expected(res):
    """All template results are fully defined values: a null anywhere means some call rejected a float literal."""
    if res is None:
        return True
    if isinstance(res, list):
        return any(has_null_where_value_expected(x) for x in res)
    return False


def run_shard(spec, acc):
    api = _api()
    if spec['part'] == 'library':
        run_library(spec, acc, api)
    elif spec['part'] == 'operators':
        run_operators(acc, api)
    else:
        run_scripts(spec, acc, api)


def replay(spec, acc):
    api = _api()
    case = spec['case']
    if 'fn' in case:
        one_case(case['fn'], refval.dec(case['args']), acc, api)
    else:
        acc.note_inconclusive('replay by re-running: ./check C12 quick')
