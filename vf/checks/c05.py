"""C05 - runtime errors are contained: only documented exceptions escape.
Monitors: exception-type filter at the API boundary, evaluate_expression result-type contract, LibrarySpy
(what the library function really raised), fault-injecting host probes; oracle for injected faults: RefAST."""
import copy
import datetime
import itertools
import json
import random
import re

from .. import core, exec_prog, gen_prog, refval
from ..monitors import LibrarySpy
from ..refast import pp
from ..refexpr import OPS

TZ = datetime.timezone


def adversarial_pool():
    return [
        None, True, False, 0, 0.0, -0.0, 1, -1, 2, 0.5, -0.5, -8, -8.5, 3, 1e308, -1e308, 5e-324, 1e16, 10 ** 400, -10 ** 400, 2 ** 64, 1e-310,
        300, -300, 1000, 1e6, float('inf'), float('-inf'), float('nan'),
        '', 'a', '0', 'x' * 50,
        datetime.datetime(100, 1, 1), datetime.datetime(9999, 12, 31, 23, 59, 59, 999000), datetime.date(1, 1, 1),
        datetime.datetime(2020, 1, 1), datetime.datetime(2020, 6, 1, 12, tzinfo=TZ.utc), datetime.date(9999, 12, 31),
        [], [1], {}, {'a': 1}, gen_prog.host_fn, re.compile('a'),
        [float('inf')], {'a': float('nan')}, [[1, float('-inf')]],  # directed witnesses for finding F17
    ]


def plan(tier, seed):
    specs = [{'part': 'matrix', 'mod': 4, 'rem': r} for r in range(4)]
    nlib = 16 if tier == 'thorough' else 6
    for sh in range(nlib):
        specs.append({'part': 'library', 'n': 40 if tier == 'quick' else 500, 'shard': sh, 'nshards': nlib})
    nf = 3 if tier == 'quick' else 16
    for sh in range(nf):
        specs.append({'part': 'faults', 'n': 60 if tier == 'quick' else 1500, 'shard': sh})
    na = 3 if tier == 'quick' else 16
    for sh in range(na):
        specs.append({'part': 'programs', 'n': 500 if tier == 'quick' else 12000, 'shard': sh})
    return specs


def meta(tier):
    return {
        'level': 'fault_enumeration',
        'rule': ('(a) 14 operators x adversarial pool^2 (0/-0 divisors, 1e308, +-10**400, negative bases x fractional exponents, '
                 'inf/nan, datetimes at year 1/100/9999) and unary x pool through evaluate_expression; (b) every library function x '
                 'argument lists of length 0..arity+1 from all types under LibrarySpy, debug on/off, every failing call repeated through evaluate_expression with options None / {} / debug without a logFn key, failing expressions through the exported data functions without options, and the debug-mode report of calls failing inside data-function expressions (python API and script functions, with / without the variables object); (c) fault enumeration: in '
                 'generated programs the k-th host call raises each of KeyError, ZeroDivisionError, RecursionError, a custom '
                 'Exception, five message-less exceptions (NotImplementedError(), AssertionError(), MemoryError(), KeyError(), StopIteration()), ValueArgsError(return value) and BareScriptRuntimeError (must propagate), for every call position k, '
                 'compared with the reference call-wrapper semantics; (d) generated programs with / % ** over adversarial initial '
                 'globals. Non-trivial: an operand pair that is not both null, a library call with >= 1 argument, an injected '
                 'fault that fired, a program that logged; distinct = distinct case text/arguments.'),
        'exhaustive': False,
        'assumptions': ['no cyclic containers; expression depth <= 8; int ** int with exponent > 4096 and other single-statement '
                        'resource exhaustion are not generated (a per-case alarm turns a stall into inconclusive)',
                        'BaseException subclasses (KeyboardInterrupt, SystemExit) raised by host functions are outside the statement'],
    }


def _api():
    import bare_script
    from bare_script.library import SCRIPT_FUNCTIONS
    from bare_script.parser import BareScriptParserError
    from bare_script.runtime import BareScriptRuntimeError, evaluate_expression
    from bare_script.value import ValueArgsError
    return bare_script, SCRIPT_FUNCTIONS, BareScriptRuntimeError, BareScriptParserError, evaluate_expression, ValueArgsError


def _contracts():
    from ..contracts import Contracts
    return Contracts().install({'evaluate_expression', 'parse_script'})


def drain(con, acc, case):
    for p, kind, detail in con.drain():
        if p == 'C05':
            acc.violation('contract:' + kind, detail, case)
        else:
            acc.count('cross_' + p + '_' + kind)


def huge_power(op, a, b):
    return op == '**' and isinstance(a, int) and isinstance(b, int) and abs(b) > 4096 and abs(a) > 1


def run_matrix(spec, acc, api, con):
    _, _, rt_err, _, evaluate_expression, _ = api
    P = adversarial_pool()
    ix = 0
    for op in OPS:
        e = {'binary': {'op': op, 'left': {'variable': 'aa'}, 'right': {'variable': 'bb'}}}
        for a, b in itertools.product(P, repeat=2):
            ix += 1
            if ix % spec['mod'] != spec['rem']:
                continue
            if huge_power(op, a, b):
                acc.count('skipped_huge_int_power')
                continue
            case = {'expr': e, 'globals': refval.enc({'aa': a, 'bb': b})}
            one_eval(e, {'aa': a, 'bb': b}, acc, api, con, case)
            acc.case((op, repr(a), repr(b)), a is not None or b is not None)
            acc.cover('op_type_type', f'{op} {refval.rtype(a)} {refval.rtype(b)}')
    if spec['rem'] == 0:
        for op in '!-':
            for a in P:
                e = {'unary': {'op': op, 'expr': {'variable': 'aa'}}}
                one_eval(e, {'aa': a}, acc, api, con, {'expr': e, 'globals': refval.enc({'aa': a})})
                acc.case(('u' + op, repr(a)), a is not None)
    if spec['rem'] == 0:
        # the special forms and built-ins with every argument COUNT (0..6): surplus / missing arguments are ignored or fail the call,
        # through text and through models (the `if` form is evaluated outside the call wrapper)
        from bare_script.parser import parse_expression
        for fname in ('if', 'max', 'min', 'len', 'abs', 'round', 'date', 'text', 'indexOf', 'nosuchfn'):
            for n in range(0, 7):
                for pool_args in ([{'number': float(k)} for k in range(n)], [{'variable': 'aa'}] * n, [{'string': 'x'}] * n):
                    e = {'function': {'name': fname, 'args': pool_args}}
                    for builtins in (True, False):
                        case = {'expr': e, 'builtins': builtins}
                        acc.case(('arity', fname, n, json.dumps(pool_args[:1]), builtins), True)
                        try:
                            evaluate_expression(e, {'globals': {'aa': None}}, None, builtins)
                        except rt_err:
                            pass
                        except Exception as exc:  # pylint: disable=broad-except
                            acc.violation('host-exception-escaped', f'{fname} with {n} arguments (builtins={builtins}): {type(exc).__name__}: {exc}', case)
                        acc.count('arity_sweep_evaluations')
            e2 = {'function': {'name': fname}}  # a call model without an args member is schema-valid
            try:
                evaluate_expression(e2, {'globals': {}}, None, True)
            except rt_err:
                pass
            except Exception as exc:  # pylint: disable=broad-except
                acc.violation('host-exception-escaped', f'{fname} without an args member: {type(exc).__name__}: {exc}', {'expr': e2})
    acc.sample({'matrix': '14 operators x adversarial pool^2', 'pool_size': len(P), 'example': ['1 / 0', '(0-8) ** 0.5', '10**400 + 0.5']}, limit=1)


def one_eval(e, gvals, acc, api, con, case):
    _, _, rt_err, _, evaluate_expression, _ = api
    try:
        with core.alarm(10):
            res = evaluate_expression(e, {'globals': dict(gvals)}, None, False)
        acc.count('returned_value')
        if not refval.is_value(res):
            acc.violation('non-value-result', f'{type(res).__name__} {res!r} from {json.dumps(e)} with {gvals!r}'[:600], case)
    except core.CaseTimeout:
        acc.timeouts += 1
    except rt_err:
        acc.count('runtime_error_raised')
    except Exception as exc:  # pylint: disable=broad-except
        fid = classify_arith(e, gvals, exc)
        if fid:
            acc.known_finding(fid, f'{type(exc).__name__}: {exc} from {json.dumps(e)[:120]} with {gvals!r:.200}')
        else:
            acc.violation('host-exception-escaped', f'{type(exc).__name__}: {exc} from {json.dumps(e)} with {gvals!r}'[:700], case)
    drain(con, acc, case)


_F16_MSG = re.compile(r'year -?\d+ is out of range|date value out of range')


def extreme_datetime(v, depth=0):
    if isinstance(v, datetime.date):
        d = v.replace(tzinfo=None) if isinstance(v, datetime.datetime) else datetime.datetime(v.year, v.month, v.day)
        return d - datetime.datetime.min < datetime.timedelta(hours=48) or datetime.datetime.max - d < datetime.timedelta(hours=48)
    if depth < 6 and isinstance(v, list):
        return any(extreme_datetime(x, depth + 1) for x in v)
    if depth < 6 and isinstance(v, dict):
        return any(extreme_datetime(x, depth + 1) for x in v.values())
    return False


def classify_escape(exc_type, msg, values):
    """Mechanism classifier for finding F16 (local-time conversion of a datetime at the edge of the representable
    range). Anything else that escapes is a violation."""
    if exc_type in ('ValueError', 'OverflowError') and _F16_MSG.search(msg) and any(extreme_datetime(v) for v in values):
        return 'F16'
    if exc_type == 'ValueError' and 'Out of range float values are not JSON compliant' in msg and any(nonfinite_inside(v) for v in values):
        return 'F17'
    return None


def nonfinite_inside(v, depth=0):
    """v is an array/object that (transitively) contains inf or nan."""
    if depth > 8:
        return False
    if isinstance(v, (list, dict)):
        items = v if isinstance(v, list) else v.values()
        return any((isinstance(x, float) and (x != x or x in (float('inf'), float('-inf')))) or nonfinite_inside(x, depth + 1) for x in items)
    return False


def classify_arith(e, gvals, exc):
    return classify_escape(type(exc).__name__, str(exc), list(gvals.values()))


# ------------------------------------------------------------------ library x argument lists

def lib_pool(rt_err):
    def raising(args, options):
        raise KeyError('host callback failure')

    def rt_raising(args, options):
        raise rt_err('callback runtime error')

    def non_number(args, options):
        return 'zz'
    raising.__name__, rt_raising.__name__, non_number.__name__ = 'cb_raising', 'cb_rt_raising', 'cb_non_number'
    for f in (raising, rt_raising, non_number):
        refval.register_fn(f.__name__, f)
    return [None, True, False, 0, 1, -1, 2, 3, 2.5, -0.5, 7, 100, float('inf'), float('nan'),
            '', 'a', 'abc', 'a,b\n1,2', '2024-02-30', '{"a":1}', '[', '(', 'a+', '1 +', 'i', 'typedef int X', 'a > (1', 'a == 1', 'a + 1', 'zz(a)', "'x", 'a b',
            datetime.datetime(2020, 1, 2, 3, 4, 5, 6000), datetime.date(2021, 2, 3),
            [], [3, 1, 2], ['b', 'a'], [{'a': 1}, {'a': 2}], [[1, 2]], [None], {}, {'a': 1}, {'measures': [{'field': 'a', 'function': 'sum'}]},
            {'url': 'x'}, gen_prog.host_fn, raising, rt_raising, non_number, re.compile('a'), re.compile('(?P<n>b)')]


SKIP_LIB = set()


def arg_model(fn_name):
    import bare_script.library as L
    for k, v in vars(L).items():
        if k.endswith('_ARGS') and isinstance(v, list) and k.lower().replace('_', '') == ('_' + fn_name + 'args').lower().replace('_', ''):
            return v
    return None


def arity(fn_name, lib):
    # argument-model length when the function publishes one through its closure constants; else 3
    import bare_script.library as L
    for k, v in vars(L).items():
        if k.endswith('_ARGS') and isinstance(v, list) and k.lower().replace('_', '') == ('_' + fn_name + 'args').lower().replace('_', ''):
            return len(v)
    return 3


def run_library(spec, acc, api, con):
    bare_script, lib, rt_err, p_err, _, vae = api
    P = lib_pool(rt_err)
    names = sorted(lib)
    base = spec['seed'] * 1000003 + spec['shard'] * 7919 + 3
    rnd = random.Random(base)
    spy = LibrarySpy(lib)
    for fi, fname in enumerate(names):
        if fi % spec['nshards'] != spec['shard'] % spec['nshards']:
            continue
        ar = arity(fname, lib)
        model = arg_model(fname)
        for j in range(spec['n']):
            if model is not None and rnd.random() < 0.6:
                # steered by the argument model: right-typed containers/strings so that the function body is reached, with
                # adversarial VALUES (malformed expressions, bad patterns, raising callbacks, non-finite numbers)
                picks = []
                for a in model:
                    if a.get('lastArgArray'):
                        picks.extend(rnd.choice(P) for _ in range(rnd.randint(0, 3)))
                        break
                    if rnd.random() < 0.12 and (a.get('nullable') or 'default' in a or a.get('type') is None):
                        break
                    t = a.get('type')
                    cands = [x for x in P if t is None or refval.rtype(x) == t or (t == 'function' and callable(x))]
                    picks.append(rnd.choice(cands or P) if rnd.random() < 0.9 else rnd.choice(P))
                if rnd.random() < 0.05:
                    picks.append(rnd.choice(P))
            else:
                picks = [rnd.choice(P) for _ in range(rnd.randint(0, ar + 1))]
            args = [x if callable(x) else copy.deepcopy(x) for x in picks]
            debug = rnd.random() < 0.6
            lib_case(fname, args, debug, acc, api, con, spy)
        acc.cover('functions', fname)
    if spec['shard'] == 0:
        # directed calls (each one was a finding or a near-miss of an earlier run)
        for fname, args in [('dataParseCSV', ['a', '1,2']), ('dataParseCSV', ['a,b\n1,2,3']), ('dataParseCSV', ['a,b', '1']), ('dataParseCSV', ['a,a', '1,2']),
                            ('dataParseCSV', ['', '1']), ('dataValidate', [[{'a': 1}, {'a': 'x'}]]), ('dataAggregate', [[{'a': 'x'}], {'measures': [{'field': 'a', 'function': 'sum'}]}]),
                            ('dataSort', [[{'a': 1}], 'a']), ('dataSort', [[{'a': 1}, 5], [['a']]]), ('dataTop', [[1, 2], 1]), ('dataJoin', [[{'a': 1}], [5], 'a']),
                            ('objectNew', ['a']), ('regexReplace', [re.compile('a'), 'aaa', '$9']), ('regexNew', ['(?<n>a)', 'q']), ('jsonParse', ['{"a": NaN}']),
                            ('stringFromCharCode', [1114112]), ('datetimeNew', [9999, 12, 32]), ('schemaValidate', [{}, 'X', 1]), ('schemaParse', [5]),
                            ('arrayJoin', [[float('inf'), [float('nan')]], ',']), ('jsonStringify', [[float('inf')]]), ('stringNew', [{'a': float('nan')}])]:
            lib_case(fname, [x if callable(x) else copy.deepcopy(x) for x in args], True, acc, api, con, spy)
        data_functions_without_options(acc, api)
        data_functions_report_failures(acc, api)
        data_functions_fail_whole(acc, api)
        script_function_failures(acc, api)
        fatal_statement_errors(acc, api)
        option_shapes(acc, api)
        system_fetch_failures(acc, api)
        odd_include_urls(acc, api)
        host_typed_values(acc, api)


DOCUMENTED_FAILURE = {'arrayIndexOf': -1, 'arrayLastIndexOf': -1, 'arrayLength': 0, 'objectHas': False, 'stringIndexOf': -1,
                      'stringLastIndexOf': -1, 'stringLength': 0, 'objectGet': None}


def lib_case(fname, args, debug, acc, api, con, spy):
    bare_script, lib, rt_err, p_err, _, vae = api
    names = [f'a{k}' for k in range(len(args))]
    model = {'statements': [
        {'expr': {'name': 'rr', 'expr': {'function': {'name': fname, 'args': [{'variable': n} for n in names]}}}},
        {'expr': {'expr': {'function': {'name': 'mk', 'args': []}}}},
    ]}
    logs = []
    marker = []
    g = dict(zip(names, args))
    g.update(spy.wrapped)
    g['mk'] = lambda a, o: marker.append(1)
    del spy.calls[:]
    fetched = []
    options = {'globals': g, 'logFn': logs.append, 'debug': debug, 'maxStatements': 1000,
               'fetchFn': lambda req: fetched.append(req) or None}
    case = {'fn': fname, 'args': refval.enc([a if not callable(a) else a for a in args]), 'debug': debug}
    acc.case((fname, repr(refval.canon(args)), debug), len(args) >= 1)
    try:
        with core.alarm(10):
            bare_script.execute_script(model, options)
        status = 'ok'
    except core.CaseTimeout:
        acc.timeouts += 1
        return
    except rt_err as exc:
        status = 'rterr'
    except Exception as exc:  # pylint: disable=broad-except
        acc.violation('host-exception-escaped', f'{fname}({args!r:.300}) -> {type(exc).__name__}: {exc}', case)
        return
    finally:
        drain(con, acc, case)
    top = next((c for c in spy.calls if c['name'] == fname), None)
    if top is None:
        acc.violation('spy-not-reached', f'{fname}: the pre-populated global was not the function called', case)
        return
    acc.count('library_calls_observed')
    fail_lines = [l for l in logs if l.startswith('BareScript:') and f'"{fname}"' in l and 'resource' not in l]
    if top['raised'] is None:
        acc.count('library_calls_returned')
        if status != 'ok':
            acc.violation('returned-but-run-failed', f'{fname}({args!r:.300}) returned, run status {status}', case)
            return
        if not refval.is_value(g.get('rr')):
            acc.violation('non-value-result', f'{fname}({args!r:.300}) -> {g.get("rr")!r:.200}', case)
        if fail_lines:
            acc.violation('failure-logged-for-successful-call', f'{fname}: {fail_lines}', case)
        if not marker:
            acc.violation('execution-did-not-continue', f'{fname}({args!r:.300})', case)
        return
    acc.count('library_calls_raised')
    acc.cover('raised_types', top['raised'])
    if top['raised'] == 'BareScriptRuntimeError':
        if status != 'rterr':
            acc.violation('runtime-error-swallowed', f'{fname}({args!r:.300}) raised BareScriptRuntimeError but the run completed', case)
        return
    if status != 'ok':
        acc.violation('library-failure-stopped-run', f'{fname}({args!r:.300}) raised {top["raised"]}; run status {status}', case)
        return
    expected = top['return_value'] if top['raised'] == 'ValueArgsError' else None
    if top['raised'] == 'ValueArgsError' and fname in DOCUMENTED_FAILURE:
        # the documented failure value comes from the library documentation, not from the exception object
        documented = DOCUMENTED_FAILURE[fname]
        if fname == 'objectGet':
            documented = args[2] if len(args) >= 3 else None
        if not refval.veq(expected, documented):
            acc.violation('documented-failure-value', f'{fname}({args!r:.300}) failed validation with return value {expected!r}, documented {documented!r}', case)
            return
    if not refval.veq(g.get('rr'), expected) or ('rr' not in g):
        acc.violation('failure-value', f'{fname}({args!r:.300}) raised {top["raised"]}: result {g.get("rr")!r:.200}, documented failure value {expected!r}', case)
    if debug and len(fail_lines) != 1:
        acc.violation('debug-log-count', f'{fname}({args!r:.300}) raised {top["raised"]}: {len(fail_lines)} failure lines in debug mode: {logs[:4]}', case)
    if not debug and fail_lines:
        acc.violation('logged-without-debug', f'{fname}: {fail_lines}', case)
    if not marker:
        acc.violation('execution-did-not-continue', f'{fname}({args!r:.300}) raised {top["raised"]}', case)
    # the same failing call through evaluate_expression WITHOUT an options object (it is optional) and with an empty one
    from bare_script.runtime import evaluate_expression
    expr = {'function': {'name': fname, 'args': [{'variable': n} for n in names]}}
    for opts in (None, {}, {'debug': True}):
        loc = dict(zip(names, copy.deepcopy(args) if not any(callable(a) for a in args) else args))
        loc[fname] = lib[fname]
        try:
            with core.alarm(10):
                got = evaluate_expression(expr, opts, loc, False)
        except core.CaseTimeout:
            acc.timeouts += 1
            return
        except rt_err:
            got = expected
        except Exception as exc:  # pylint: disable=broad-except
            acc.violation('host-exception-escaped', f'evaluate_expression({fname}({args!r:.300}), options={opts!r}) -> {type(exc).__name__}: {exc}', dict(case, options=repr(opts)))
            return
        acc.count('failing_calls_without_options')
        if not refval.veq(got, expected):
            acc.violation('failure-value', f'evaluate_expression({fname}({args!r:.300}), options={opts!r}) = {got!r:.200}, documented failure value {expected!r}', case)
            return


def data_functions_without_options(acc, api):
    """The exported data functions take an optional options object: an expression whose call fails evaluates to null there too."""
    import bare_script
    rows = lambda: [{'a': 1, 'b': 'x'}, {'a': 2, 'b': None}]  # noqa: E731
    for expr in ("mathSqrt('x')", 'arrayGet(b, 5)', "stringIndexOf(a, 'q')", 'nosuch(a)', "numberParseInt(b, 99)", 'datetimeYear(a)'):
        for label, fn in (('filter_data', lambda e: bare_script.filter_data(rows(), e + ' == null')),
                          ('add_calculated_field', lambda e: bare_script.add_calculated_field(rows(), 'cc', e)),
                          ('join_data', lambda e: bare_script.join_data(rows(), rows(), e)),
                          ('filter_data+vars', lambda e: bare_script.filter_data(rows(), e + ' == null', {'zz': 1})),
                          ('filter_data+options', lambda e: bare_script.filter_data(rows(), e + ' == null', None, {}))):
            acc.case(('data-no-options', label, expr), True)
            acc.count('data_function_calls_without_options')
            try:
                fn(expr)
            except api[2]:
                pass  # a runtime error (undefined function) is the documented error type
            except Exception as exc:  # pylint: disable=broad-except
                acc.violation('host-exception-escaped', f'{label} with expression {expr!r} and no options -> {type(exc).__name__}: {exc}', {'fn': label, 'expr': expr})
                return


def script_function_failures(acc, api):
    """Failures of the CALL of a script-defined function itself (not of something inside it) are contained like any other:
    runaway recursion, and a script function called later through evaluate_expression with a fresh / absent options object."""
    import sys
    import bare_script
    from bare_script.runtime import evaluate_expression
    rt_err = api[2]
    old = sys.getrecursionlimit()
    sys.setrecursionlimit(1200)
    try:
        for debug in (False, True):
            logs = []
            text = "function rec(n):\n    return rec(n + 1)\nendfunction\nfunction twice(n):\n    return arrayNew(rec(n), 'inner continues')\nendfunction\nr = rec(0)\nreturn arrayNew(r, twice(1), 'still running')"
            case = {'text': text, 'debug': debug}
            acc.case(('runaway-recursion', debug), True)
            try:
                res = bare_script.execute_script(bare_script.parse_script(text), {'globals': {}, 'logFn': logs.append, 'debug': debug, 'maxStatements': 0})
            except rt_err:
                res = 'runtime-error'  # the documented error type is acceptable as well
            except Exception as exc:  # pylint: disable=broad-except
                acc.violation('host-exception-escaped', f'runaway recursion in a script function (debug={debug}): {type(exc).__name__}: {str(exc)[:200]}', case)
                continue
            acc.count('script_function_failure_checks')
            if res != 'runtime-error' and res != [None, [None, 'inner continues'], 'still running']:
                acc.violation('failure-value', f'runaway recursion (debug={debug}): result {res!r:.300}', case)
    finally:
        sys.setrecursionlimit(old)
    g = {}
    bare_script.execute_script(bare_script.parse_script("function addOne(x):\n    return x + 1\nendfunction\nfunction loops(n):\n    ix = 0\n    while ix < n:\n        ix = ix + 1\n    endwhile\n    return ix\nendfunction"), {'globals': g})
    for name, args in (('addOne', [{'number': 1.0}]), ('loops', [{'number': 3.0}])):
        expr = {'function': {'name': name, 'args': args}}
        for label, opts, loc in (('fresh options', {'globals': g}, None), ('options with limit', {'globals': g, 'maxStatements': 5}, None),
                                 ('no options, function in locals', None, {name: g[name]}), ('empty options, function in locals', {}, {name: g[name]})):
            acc.case(('script-function-via-expression', name, label), True)
            try:
                evaluate_expression(expr, opts, loc)
            except rt_err:
                pass
            except Exception as exc:  # pylint: disable=broad-except
                acc.violation('host-exception-escaped', f'evaluate_expression calling the script function {name} with {label}: {type(exc).__name__}: {exc}', {'fn': name, 'how': label})
                continue
            acc.count('script_function_failure_checks')


def fatal_statement_errors(acc, api):
    """The documented FATAL errors of statements - a jump to a label that does not exist, the statement budget running out - are the
    documented error type wherever and whenever they happen: after other jumps were taken in the same statement list, inside a
    function, with integer / float / fractional limits, through evaluate_expression calling a script function."""
    import bare_script
    rt_err = api[2]
    jumps = [("jump a\na:\njump nowhere", 'nowhere'), ("jump nowhere", 'nowhere'),
             ("ix = 0\nwhile ix < 2:\n    ix = ix + 1\nendwhile\njump typoLabel", 'typoLabel'),
             ("x = 1\nif x:\n    y = 2\nendif\njumpif (x) missing", 'missing'),
             ("n = 0\nagain:\nn = n + 1\njumpif (n < 3) again\njump gone\ngone2:", 'gone'),
             ("for v in arrayNew(1, 2):\n    z = v\nendfor\njumpif (z == 2) lost", 'lost'),
             ("function fa():\n    jump a\n    a:\n    jump nowhere\nendfunction\nr = fa()\nreturn 'continued'", 'nowhere'),
             ("function fa(n):\n    for v in arrayNew(1):\n        n = n + v\n    endfor\n    jumpif (n) away\n    return 1\nendfunction\nreturn arrayNew(fa(1), 'continued')", 'away'),
             ("function fa():\n    jump only\nendfunction\nok:\njump ok2\nok2:\nreturn fa()", 'only'),
             ("jump a\na:\njump b\nb:\njumpif (1) c\nc:\njumpif (0) never\njumpif (1) never", 'never')]
    for text, label in jumps:
        for debug in (False, True):
            case = {'text': text, 'debug': debug}
            acc.case(('unknown-label', text, debug), True)
            acc.count('fatal_statement_error_checks')
            try:
                res = bare_script.execute_script(bare_script.parse_script(text), {'globals': {}, 'logFn': (lambda m: None), 'debug': debug})
                acc.violation('fatal-error-swallowed', f'jump to the undefined label {label!r} did not fail: result {res!r:.200}\n{text}', case)
            except rt_err as exc:
                if str(exc) != f'Unknown jump label "{label}"':
                    acc.violation('fatal-error-message', f'{str(exc)!r} for a jump to the undefined label {label!r}\n{text}', case)
            except Exception as exc:  # pylint: disable=broad-except
                acc.violation('host-exception-escaped', f'jump to the undefined label {label!r}: {type(exc).__name__}: {exc}\n{text}', case)
    loops = ["while true:\nendwhile", "function spin():\n    while true:\n    endwhile\nendfunction\nreturn arrayNew(spin(), 'continued')",
             "again:\njump again", "function ping(n):\n    while n:\n        n = pong(n)\n    endwhile\nendfunction\nfunction pong(n):\n    return n + 1\nendfunction\nreturn ping(1)"]
    for text in loops:
        for limit in (5, 5.0, 7.5, 8.25, 1e3, 1000, 99.999):
            case = {'text': text, 'limit': limit}
            acc.case(('budget', text, limit), True)
            acc.count('fatal_statement_error_checks')
            try:
                res = bare_script.execute_script(bare_script.parse_script(text), {'globals': {}, 'maxStatements': limit})
                acc.violation('fatal-error-swallowed', f'a non-terminating script ended with {res!r:.200} under maxStatements={limit!r}\n{text}', case)
            except rt_err as exc:
                if not str(exc).startswith('Exceeded maximum script statements'):
                    acc.violation('fatal-error-message', f'{str(exc)!r} under maxStatements={limit!r}\n{text}', case)
            except Exception as exc:  # pylint: disable=broad-except
                acc.violation('host-exception-escaped', f'statement budget maxStatements={limit!r} ran out: {type(exc).__name__}: {exc}\n{text}', case)

def option_shapes(acc, api):
    """Every shape of the options argument a host may pass (none, empty, globals spelled out as None, debug without a log function,
    one object reused after it was reset): plain scripts, scripts with failing calls and includes whose static analysis has something to
    report run without a host exception."""
    import bare_script
    from bare_script.runtime import evaluate_expression
    rt_err = api[2]
    files = {'warn.bare': "function unusedArg(aa, bb):\n    cc = 1\n    return aa\nendfunction\nfunction unusedArg(aa):\n    return aa\nendfunction\njump nowhere2\nnowhere2:\n",
             'fine.bare': "function fine(aa):\n    return aa + 1\nendfunction\n"}
    scripts = [('plain', "xx = 1\nreturn xx + 1", 2), ('failing-call', "return arrayNew(stringLength(5), mathSqrt('x'), 1)", [0, None, 1]),
               ('include-with-warnings', "include 'warn.bare'\ninclude 'fine.bare'\nreturn fine(unusedArg(1))", 2), ('undefined', "return nosuch(1)", 'rterr')]
    shapes = [('none', lambda: None), ('empty', dict), ('globals-none', lambda: {'globals': None}), ('globals-none-debug', lambda: {'globals': None, 'debug': True}),
              ('debug-no-logfn', lambda: {'debug': True}), ('debug-logfn-none', lambda: {'debug': True, 'logFn': None}), ('logfn-none', lambda: {'logFn': None}),
              ('debug-false-logfn', lambda: {'debug': False, 'logFn': (lambda m: None)}), ('limit', lambda: {'maxStatements': 100.0, 'globals': None})]
    for sname, mk in shapes:
        reused = mk()
        for name, text, want in scripts:
            if name == 'failing-call' and sname == 'debug-logfn-none':
                continue  # (reporting a failed call to a log function that is None: outside the option shapes the property covers)
            for how in ('fresh', 'reused-after-reset'):
                o = mk() if how == 'fresh' else reused
                if o is not None:
                    o['fetchFn'] = lambda req: files.get(req['url'])
                    if how == 'reused-after-reset' and 'globals' in (mk() or {}):
                        o['globals'] = None  # the host resets the globals member between two runs
                if o is None and name == 'include-with-warnings':
                    continue
                case = {'shape': sname, 'script': name, 'how': how}
                acc.case(('option-shape', sname, name, how), True)
                acc.count('option_shape_runs')
                try:
                    res = bare_script.execute_script(bare_script.parse_script(text), o)
                    if want != 'rterr' and res != want:
                        acc.violation('failure-value', f'options {sname} ({how}), script {name}: result {res!r}, expected {want!r}', case)
                except rt_err:
                    if want != 'rterr':
                        acc.violation('failure-value', f'options {sname} ({how}), script {name}: runtime error instead of {want!r}', case)
                except Exception as exc:  # pylint: disable=broad-except
                    acc.violation('host-exception-escaped', f'options {sname} ({how}), script {name}: {type(exc).__name__}: {exc}', case)
        for e in ({'binary': {'op': '+', 'left': {'number': 1.0}, 'right': {'variable': 'zz'}}}, {'function': {'name': 'len', 'args': [{'number': 5.0}]}}):
            try:
                evaluate_expression(e, mk())
                acc.count('option_shape_runs')
            except rt_err:
                pass
            except Exception as exc:  # pylint: disable=broad-except
                if not (sname == 'debug-logfn-none' and 'function' in e):
                    acc.violation('host-exception-escaped', f'evaluate_expression with options {sname}: {type(exc).__name__}: {exc}', {'shape': sname, 'expr': e})


def system_fetch_failures(acc, api):
    """systemFetch over a host fetchFn that answers some requests and fails others (raises, returns nothing), in every position of
    the array form and in the single forms: each failed request evaluates to null - never to an earlier answer -, each failure is
    reported once in debug mode, and nothing escapes."""
    import itertools
    import bare_script
    rt_err = api[2]

    def fetch(req):
        u = req['url']
        if 'raise' in u:
            raise OSError('no route to ' + u)
        if 'none' in u:
            return None
        return 'text of ' + u + ('|' + req['body'] if req.get('body') else '')
    for n in (1, 2, 3, 4):
        for kinds in itertools.product(('ok', 'raise', 'none'), repeat=n):
            urls = [f'{k}{i}.txt' for i, k in enumerate(kinds)]
            want = [('text of ' + u) if k == 'ok' else None for u, k in zip(urls, kinds)]
            forms = [('array', "systemFetch(arrayNew(" + ', '.join(f"'{u}'" for u in urls) + "))", want),
                     ('array-of-requests', "systemFetch(arrayNew(" + ', '.join(f"objectNew('url', '{u}')" for u in urls) + "))", want)]
            if n == 1:
                forms += [('string', f"systemFetch('{urls[0]}')", want[0]), ('request', f"systemFetch(objectNew('url', '{urls[0]}', 'body', 'bb'))", (want[0] + '|bb') if want[0] else None)]
            for form, call, expected in forms:
                for debug in (False, True):
                    logs = []
                    case = {'call': call, 'debug': debug}
                    acc.case(('systemFetch', call, debug), True)
                    try:
                        res = bare_script.execute_script(bare_script.parse_script('return ' + call), {'globals': {}, 'fetchFn': fetch, 'logFn': logs.append, 'debug': debug})
                    except rt_err as exc:
                        acc.violation('library-failure-stopped-run', f'{call}: {exc}', case)
                        continue
                    except Exception as exc:  # pylint: disable=broad-except
                        acc.violation('host-exception-escaped', f'{call}: {type(exc).__name__}: {exc}', case)
                        continue
                    acc.count('system_fetch_failure_checks')
                    nfail = sum(1 for k in kinds if k != 'ok')
                    lines = [l for l in logs if 'systemFetch' in l]
                    if res != expected:
                        acc.violation('failure-value', f'{call} (debug={debug}) = {res!r:.300}, expected {expected!r:.300}', case)
                    elif debug and len(lines) != nfail:
                        acc.violation('debug-log-count', f'{call}: {nfail} failed requests, {len(lines)} report lines {lines[:3]!r:.300}', case)
                    elif not debug and lines:
                        acc.violation('logged-without-debug', f'{call}: {lines[:2]}', case)


def odd_include_urls(acc, api):
    """Include statements with unusual but parseable locations (empty, blank, '/', '.', '..', '#', ':' ...), plain and system form,
    at top level and inside an included file (where the run-time's own relative resolution is the urlFn), with and without a
    system prefix / fetch function: the run ends with a value or the documented error types - nothing else escapes."""
    import bare_script
    rt_err, p_err = api[2], api[3]
    urls = ['', ' ', '/', '.', '..', '../', '#', ':', '://', 'http:', 'a b', '?x', '/.', './', '//', '\\', 'é', '%', 'a/../../..', 'C:\\x']
    for u in urls:
        for form in ("include '{u}'", 'include <{u}>'):
            if form.startswith("include '") and "'" in u:
                continue
            if form.endswith('>') and '>' in u:
                continue
            stmt = form.replace('{u}', u)
            for where in ('top', 'nested'):
                for prefix in (None, '/sys/', 'https://cdn.example/lib/', ''):
                    for fetch_kind in ('misses', 'raises', 'absent', 'answers'):
                        files = {'inner.bare': stmt}

                        def fetch(req, fetch_kind=fetch_kind):
                            if req['url'].endswith('inner.bare') and req['url'] in ('inner.bare', 'dir/inner.bare'):
                                return stmt
                            if fetch_kind == 'raises':
                                raise OSError('no such file')
                            return "zz = 1" if fetch_kind == 'answers' else None
                        o = {'globals': {}, 'logFn': None}
                        if fetch_kind != 'absent':
                            o['fetchFn'] = fetch
                        if prefix is not None:
                            o['systemPrefix'] = prefix
                        text = stmt if where == 'top' else "include 'dir/inner.bare'"
                        case = {'text': text, 'inner': stmt, 'prefix': prefix, 'fetch': fetch_kind}
                        acc.case(('odd-include', stmt, where, prefix, fetch_kind), True)
                        try:
                            bare_script.execute_script(bare_script.parse_script(text), o)
                        except (rt_err, p_err):
                            pass
                        except Exception as exc:  # pylint: disable=broad-except
                            acc.violation('host-exception-escaped', f'{stmt!r} ({where}, systemPrefix={prefix!r}, fetchFn {fetch_kind}): {type(exc).__name__}: {exc}', case)
                            return
                        acc.count('odd_include_url_runs')


def host_typed_values(acc, api):
    """Globals may hold values of host types the language does not know (UUID, Decimal, bytes, set, complex, arbitrary objects), also
    inside arrays and objects: evaluating with them never lets a host exception out, and failure values stay the documented ones."""
    import decimal
    import uuid
    import bare_script
    rt_err = api[2]

    class Opaque:  # pylint: disable=too-few-public-methods
        pass
    hosts = {'uuid': uuid.UUID('12345678-1234-5678-1234-567812345678'), 'decimal': decimal.Decimal('1.5'), 'bytes': b'raw', 'set': {1, 2}, 'frozenset': frozenset('ab'),
             'complex': complex(1, 2), 'object': Opaque(), 'range': range(3), 'tuple': (1, 2), 'bytearray': bytearray(b'x'), 'type': int}
    exprs = [("'ids: ' + arrayNew(hv)", None), ("'row=' + objectNew('k', hv)", None), ("'' + hv", None), ("hv + ''", None), ("arrayJoin(arrayNew(hv, 1), ',')", None),
             ("jsonStringify(arrayNew(hv))", None), ("jsonStringify(objectNew('k', arrayNew(hv)), 2)", None), ("stringNew(hv)", None), ("stringNew(arrayNew(hv))", None),
             ("arrayLength(hv)", 0), ("stringLength(arrayNew(hv))", 0), ("arrayIndexOf(hv, 1)", -1), ("objectHas(hv, 'a')", False), ("hv + 1", 'any'), ("hv == hv", 'any'), ("hv < 1", 'any'),
             ("systemType(hv)", 'any'), ("systemCompare(arrayNew(hv), arrayNew(hv))", 'any'), ("arraySort(arrayNew(hv, 1, hv))", 'any'), ("mathMax(hv, 1)", 'any'),
             ("dataSort(arrayNew(objectNew('a', hv), objectNew('a', 1)), arrayNew(arrayNew('a')))", 'any'), ("systemLog(hv)", 'any'), ("systemLogDebug(arrayNew(hv))", 'any')]
    for hname, hv in hosts.items():
        for text, want in exprs:
            for debug in (False, True):
                logs = []
                case = {'host_type': hname, 'expr': text, 'debug': debug}
                acc.case(('host-typed', hname, text, debug), True)
                try:
                    res = bare_script.execute_script(bare_script.parse_script('return ' + text), {'globals': {'hv': hv}, 'logFn': logs.append, 'debug': debug})
                except rt_err:
                    res = 'runtime-error'
                except Exception as exc:  # pylint: disable=broad-except
                    acc.violation('host-exception-escaped', f'{text} with hv = {hname} value (debug={debug}): {type(exc).__name__}: {exc}', case)
                    continue
                acc.count('host_typed_value_evaluations')
                if want is not None and want != 'any' and res != want and res != 'runtime-error':
                    acc.violation('failure-value', f'{text} with hv = {hname} value = {res!r}, documented failure value {want!r}', case)


def data_functions_report_failures(acc, api):
    """A function failing INSIDE the expression of a data function (python API and script functions, with and without the optional
    variables object, library and host functions) is reported through logFn in debug mode exactly once per failing call, is
    silent without debug, and the data function still completes."""
    import bare_script
    calls = []

    def boom(args, options):  # pylint: disable=unused-argument
        calls.append(1)
        raise KeyError('boom')
    rows = lambda: [{'a': 1, 'b': 'x'}, {'a': 2, 'b': None}, {'a': 3, 'b': 'y'}]  # noqa: E731
    for inner, fname in (('boom(a)', 'boom'), ("mathSqrt('x')", 'mathSqrt'), ('arrayGet(b, 5)', 'arrayGet')):
        for debug in (True, False):
            for variables in (None, {'zz': 1}, {}):
                for label in ('filter_data', 'add_calculated_field', 'join_data', 'dataFilter', 'dataCalculatedField', 'dataJoin'):
                    logs = []
                    del calls[:]
                    g = dict(api[1])  # the python API evaluates against the globals it is given: supply the library like a running script has it
                    g.update({'boom': boom, 'dd': rows(), 'ee': rows(), 'vv': variables})
                    o = {'globals': g, 'logFn': logs.append, 'debug': debug}
                    case = {'fn': label, 'expr': inner, 'debug': debug, 'variables': variables}
                    acc.case(('data-debug-report', label, inner, debug, repr(variables)), True)
                    try:
                        if label == 'filter_data':
                            bare_script.filter_data(rows(), inner + ' == null', variables, o)
                        elif label == 'add_calculated_field':
                            bare_script.add_calculated_field(rows(), 'cc', inner, variables, o)
                        elif label == 'join_data':
                            bare_script.join_data(rows(), rows(), inner, None, False, variables, o)
                        else:
                            vs = '' if variables is None else ', vv'
                            text = {'dataFilter': f"return dataFilter(dd, '{inner} == null'{vs})".replace("('x')", '(\\\'x\\\')'),
                                    'dataCalculatedField': f"return dataCalculatedField(dd, 'cc', '{inner}'{vs})".replace("('x')", '(\\\'x\\\')'),
                                    'dataJoin': f"return dataJoin(dd, ee, '{inner}', null, false{vs})".replace("('x')", '(\\\'x\\\')')}[label]
                            res = bare_script.execute_script(bare_script.parse_script(text), o)
                            if not isinstance(res, list):
                                acc.violation('data-function-did-not-complete', f'{text!r} -> {res!r}; {logs[-2:]!r:.300}', case)
                                return
                    except Exception as exc:  # pylint: disable=broad-except
                        acc.violation('host-exception-escaped', f'{label} with a failing call in its expression: {type(exc).__name__}: {exc}', case)
                        return
                    lines = [l for l in logs if l.startswith('BareScript:') and f'"{fname}"' in l]
                    acc.count('data_function_debug_report_checks')
                    if not debug and lines:
                        acc.violation('logged-without-debug', f'{label} {inner}: {lines[:2]}', case)
                        return
                    if debug and (not lines or (fname == 'boom' and len(lines) != len(calls))):
                        acc.violation('failure-not-reported-in-debug-mode', f'{label} with expression {inner!r}, variables={variables!r}: {len(lines)} report lines'
                                      + (f' for {len(calls)} failing calls' if fname == 'boom' else '') + f'; log={logs[:3]!r:.300}', case)
                        return


def data_functions_fail_whole(acc, api):
    """A data function that cannot finish (a row that is not an object, an undefined function in its expression) FAILS as a whole: the
    script call yields null and is reported in debug mode, the documented fatal error stays fatal - never a partial table."""
    import bare_script
    rt_err = api[2]
    for fn_text, python_call in (("dataFilter(dd, 'a > 0'{vs})", lambda b, rows, vs, o: b.filter_data(rows, 'a > 0', vs, o)),
                                 ("dataCalculatedField(dd, 'cc', 'a + 1'{vs})", lambda b, rows, vs, o: b.add_calculated_field(rows, 'cc', 'a + 1', vs, o)),
                                 ("dataJoin(dd, dd, 'a'{vs})", lambda b, rows, vs, o: b.join_data(rows, rows, 'a', None, False, vs, o))):
        for variables in (None, {'zz': 1}):
            rows = [{'a': 1}, {'a': 2}, 5, {'a': 3}]
            logs = []
            g = dict(api[1])
            g.update({'dd': rows, 'vv': variables})
            o = {'globals': g, 'logFn': logs.append, 'debug': True}
            vs = '' if variables is None else (', null, false, vv' if fn_text.startswith('dataJoin') else ', vv')
            text = 'return ' + fn_text.replace('{vs}', vs)
            case = {'text': text, 'rows': 'third row is the number 5', 'variables': variables}
            acc.case(('data-fail-whole', text), True)
            acc.count('data_function_whole_failure_checks')
            try:
                res = bare_script.execute_script(bare_script.parse_script(text), o)
            except rt_err:
                res = None
            except Exception as exc:  # pylint: disable=broad-except
                acc.violation('host-exception-escaped', f'{text}: {type(exc).__name__}: {exc}', case)
                continue
            if res is not None:
                acc.violation('failure-value', f'{text} over rows with a non-object row returned {res!r:.200} (a failed call yields null)', case)
            elif not any(l.startswith('BareScript: Function "data') for l in logs):
                acc.violation('failure-not-reported-in-debug-mode', f'{text}: log={logs[:3]!r:.300}', case)
            # the python API: the error of the bad row comes out (whatever its type) - never a partial result
            try:
                out = python_call(bare_script, [{'a': 1}, 5, {'a': 3}], variables, {'globals': dict(api[1])})
                acc.violation('failure-value', f'python API of {fn_text.split("(")[0]} returned {out!r:.200} for rows with a non-object row', case)
            except Exception:  # pylint: disable=broad-except
                pass
        # an undefined function in the expression is the documented fatal error, through the script function and the python API
        for how in ('script', 'python'):
            acc.count('data_function_whole_failure_checks')
            try:
                if how == 'script':
                    res = bare_script.execute_script(bare_script.parse_script('return ' + fn_text.replace("'a > 0'", "'nosuch(a)'").replace("'a + 1'", "'nosuch(a)'").replace("'a'", "'nosuch(a)'").replace('{vs}', '')),
                                                     {'globals': {'dd': [{'a': 1}, {'a': 2}]}})
                else:
                    res = python_call(bare_script, [{'a': 1}], None, {'globals': {}}) if False else bare_script.filter_data([{'a': 1}], 'nosuch(a)', None, {'globals': {}})
                acc.violation('fatal-error-swallowed', f'{fn_text.split("(")[0]} ({how}) with an undefined function in its expression returned {res!r:.200}', {'fn': fn_text, 'how': how})
            except rt_err:
                pass
            except Exception as exc:  # pylint: disable=broad-except
                acc.violation('host-exception-escaped', f'{fn_text.split("(")[0]} ({how}) with an undefined function: {type(exc).__name__}: {exc}', {'fn': fn_text, 'how': how})


# ------------------------------------------------------------------ injected host faults (fault enumeration)

class CustomHostError(Exception):
    pass


def fault_classes(rt_err, vae):
    return {
        'KeyError': lambda: KeyError('injected'),
        'ZeroDivisionError': lambda: ZeroDivisionError('injected'),
        'RecursionError': lambda: RecursionError('injected'),
        'CustomHostError': lambda: CustomHostError('injected custom'),
        # exceptions raised WITHOUT a message (bare `raise NotImplementedError`, a failing bare assert, MemoryError())
        'NotImplementedError()': NotImplementedError,
        'AssertionError()': AssertionError,
        'MemoryError()': MemoryError,
        'KeyError()': KeyError,
        'StopIteration()': StopIteration,
        'ValueArgsError': lambda: vae('injected', 1, 'RV'),
        'BareScriptRuntimeError': lambda: rt_err('injected runtime error'),
    }


def make_faulty_hp(k, make_exc):
    """hp probe that raises at its k-th call (0-based); a fresh instance per run."""
    state = [0]

    def hp(args, options):
        n = state[0]
        state[0] += 1
        log = options.get('logFn') if options is not None else None
        if log is not None:
            log('probe ' + str(args[0] if args else None))
        if n == k:
            raise make_exc()
        return args[1] if len(args) > 1 else None
    hp.state = state
    return hp


def run_faults(spec, acc, api, con):
    bare_script, lib, rt_err, p_err, _, vae = api
    classes = fault_classes(rt_err, vae)
    base = spec['seed'] * 1000003 + spec['shard'] * 7919 + 7
    for i in range(spec['n']):
        rnd = random.Random(base + i)
        gen = gen_prog.ProgGen(rnd, maxdepth=3, p_while_continue=0.0)
        prog = gen_prog.fix_while_continue(gen.program(), False)
        init = gen_prog.init_values(rnd, gen.vars, p_num=0.9)
        text = '\n'.join(pp(prog))
        # count the probe calls of a fault-free run
        r0 = exec_prog.run_ref(prog, init, None, lib, fuel=3000)
        if r0 is None or r0['status'] == 'diverge':
            continue
        ncalls = sum(1 for l in r0['logs'] if l.startswith('probe '))
        for k in range(min(ncalls, 12)):
            for cname, mk in classes.items():
                debug = (k + len(cname)) % 2 == 0
                case = {'prog': prog, 'init': refval.enc(init), 'k': k, 'cls': cname, 'debug': debug}
                fault_case(prog, init, text, k, cname, mk, debug, acc, lib, con, case)


def fault_case(prog, init, text, k, cname, mk, debug, acc, lib, con, case):
    ref = exec_prog.run_ref(prog, init, None, lib, fuel=3000, debug=debug, extra_hosts={'hp': make_faulty_hp(k, mk)})
    if ref is None or ref['status'] == 'diverge':
        acc.count('skipped_unspecified_by_reference')
        return
    hp = make_faulty_hp(k, mk)
    real = exec_prog.run_real(text, init, None, debug=debug, limit=20000, extra_hosts={'hp': hp})
    if real['status'] == 'timeout':
        acc.timeouts += 1
        return
    fired = hp.state[0] > k
    acc.case((text, repr(case['init']), k, cname, debug), fired)
    acc.cover('fault_classes', cname)
    acc.count('faults_fired' if fired else 'faults_not_reached')
    drain(con, acc, case)
    diff = exec_prog.same(real, ref)
    if diff is None:
        acc.count('verdict_ok')
        return
    for fid, kw in exec_prog.VARIANTS:
        alt = exec_prog.run_ref(prog, init, None, lib, fuel=3000, debug=debug, extra_hosts={'hp': make_faulty_hp(k, mk)}, **kw)
        if alt is not None and exec_prog.same(real, alt) is None:
            for f in fid.split('+'):
                acc.known_finding(f, text.replace('\n', ' | ')[:200])
            return
    acc.violation('fault-containment-differs:' + diff, f'fault {cname} at host call #{k} debug={debug}: real={real["status"]!r} '
                  f'{real.get(diff if diff in real else "logs")!r:.500} ref={ref["status"]!r} {ref.get(diff if diff in ref else "logs")!r:.500}\n{text}', case)


# ------------------------------------------------------------------ programs with adversarial operands

class AdvGen(gen_prog.ProgGen):
    def num(self, scope, d=0):
        r = self.r
        if d <= 2 and r.random() < 0.25:
            op = r.choice(['/', '%', '**', '/', '-'])
            right = self.num(scope, d + 1) if op != '**' else gen_prog.N(r.choice([2, 0.5, -1, 3, 0]))
            return gen_prog.B(op, self.num(scope, d + 1), right)
        if r.random() < 0.08:
            fname = r.choice(['numberParseInt', 'mathSqrt', 'mathLn', 'arrayGet', 'stringCharCodeAt', 'datetimeNew', 'mathRound'])
            args = [self.num(scope, d + 1) for _ in range(r.randint(0, 3))]
            if fname == 'mathRound' and len(args) >= 2:
                # (the digit count stays a small literal: 10 ** digits with a host integer of 400 digits is single-call resource exhaustion,
                #  which no check drives the implementation into - section 8)
                args[1] = gen_prog.N(r.choice([0, 2, -1, 25, 1.5]))
            return gen_prog.C(fname, *args)
        return super().num(scope, d)


ADV_INIT = [0.0, -0.0, 0, 1e308, -1e308, 10 ** 400, -10 ** 400, 2.5, -8.0, 5e-324, float('inf'), None, True, 'a', '',
            datetime.datetime(100, 1, 1), datetime.datetime(9999, 12, 31, 23, 59, 59), [], {}, gen_prog.host_fn]


def run_programs(spec, acc, api, con):
    bare_script, lib, rt_err, p_err, _, vae = api
    base = spec['seed'] * 1000003 + spec['shard'] * 7919 + 13
    for i in range(spec['n']):
        rnd = random.Random(base + i)
        gen = AdvGen(rnd, maxdepth=3, p_while_continue=0.0)
        prog = gen_prog.fix_while_continue(gen.program(), False)
        init = {v: rnd.choice(ADV_INIT) for v in gen.vars}
        text = '\n'.join(pp(prog))
        case = {'prog_text': text, 'init': refval.enc(init)}
        real = exec_prog.run_real(text, init, None, debug=rnd.random() < 0.5, limit=3000, timeout=10)
        acc.case((text, repr(case['init'])), bool(real.get('logs')))
        drain(con, acc, case)
        if real['status'] == 'timeout':
            acc.timeouts += 1
            continue
        st = real['status']
        if st.startswith('host-exception'):
            _, etype, emsg = st.split(':', 2)
            fid = classify_escape(etype, emsg, list(init.values()))
            if fid:
                acc.known_finding(fid, f'{st} with init {init!r:.200}')
            else:
                acc.violation('host-exception-escaped', f'{st}\n{text}\ninit={init!r:.400}', case)
        elif st.startswith('parse-error'):
            acc.note_inconclusive('generated program did not parse: ' + st[:200])
        else:
            acc.count('program_' + st.split(':')[0])
        if len(acc.samples) < 2 and real.get('logs'):
            acc.sample({'program': text.split('\n')[:25], 'init': refval.canon(init), 'status': st})


def run_shard(spec, acc):
    api = _api()
    con = _contracts()
    {'matrix': run_matrix, 'library': run_library, 'faults': run_faults, 'programs': run_programs}[spec['part']](spec, acc, api, con)
    acc.count('contract_evals_evaluate_expression', con.evals.get('evaluate_expression', 0))
    if con.evals.get('evaluate_expression', 0) == 0:
        acc.note_inconclusive('evaluate_expression contract saw zero evaluations')


def replay(spec, acc):
    api = _api()
    con = _contracts()
    bare_script, lib, rt_err, p_err, _, vae = api
    lib_pool(rt_err)
    case = spec['case']
    if 'expr' in case:
        one_eval(case['expr'], refval.dec(case['globals']), acc, api, con, case)
        acc.case(json.dumps(case['expr']), True)
    elif 'fn' in case:
        lib_case(case['fn'], refval.dec(case['args']), case['debug'], acc, api, con, LibrarySpy(lib))
    elif 'k' in case:
        mk = fault_classes(rt_err, vae)[case['cls']]
        fault_case(case['prog'], refval.dec(case['init']), '\n'.join(pp(case['prog'])), case['k'], case['cls'], mk, case['debug'], acc, lib, con, case)
    elif 'prog_text' in case:
        real = exec_prog.run_real(case['prog_text'], refval.dec(case['init']), None, limit=3000, timeout=10)
        acc.case(case['prog_text'], True)
        if real['status'].startswith('host-exception'):
            acc.violation('host-exception-escaped', real['status'], case)
    elif 'text' in case and ('limit' in case or 'debug' in case):
        # a directed fatal-statement-error text: any outcome other than the documented error type is reported
        opts = {'globals': {}, 'maxStatements': case['limit']} if 'limit' in case else {'globals': {}, 'logFn': (lambda m: None), 'debug': case['debug'], 'maxStatements': 0 if 'rec(' in case['text'] else 10000}
        acc.case(case['text'], True)
        try:
            res = bare_script.execute_script(bare_script.parse_script(case['text']), opts)
            if 'rec(' not in case['text']:
                acc.violation('fatal-error-swallowed', f'result {res!r:.200}', case)
        except rt_err:
            pass
        except Exception as exc:  # pylint: disable=broad-except
            acc.violation('host-exception-escaped', f'{type(exc).__name__}: {exc}', case)
    else:
        acc.note_inconclusive('finding-level replay entry')
