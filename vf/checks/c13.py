"""C13 - numbers survive conversion to text and back; integers print without a fraction.
Oracle: IEEE equality of the parsed-back value; own regexes on the text; API and script paths."""
import math
import random
import re
import struct

from .. import refval

_INT_TEXT = re.compile(r'^-?\d+$')
_BAD_FRACTION = re.compile(r'\.0*(e|$)')
_LITERAL = re.compile(r'^\d+(?:\.\d*)?(?:e[+-]\d+)?$')


def plan(tier, seed):
    nsh = 16
    n = 30000 if tier == 'quick' else 700000
    specs = [{'part': 'doubles', 'n': n, 'shard': sh, 'timeout': 3000} for sh in range(nsh)]
    specs.append({'part': 'special', 'shard': 0})
    specs.append({'part': 'parsers', 'n': 3000 if tier == 'quick' else 100000, 'shard': 1})
    return specs


def meta(tier):
    return {
        'level': 'exploration',
        'rule': ('IEEE-754 doubles from uniform random bit patterns (non-finite patterns skipped), powers of ten 1e-320..1e308 with several '
                 'mantissas, integers around 2^53, 1e15, 1e16, 1e21, subnormals and +-0, each stringified through value_string and '
                 'through the script paths (string concatenation, stringNew, arrayJoin, systemLog) and parsed back with '
                 'numberParseFloat and (x >= 0) as a source literal; parser near-misses and random strings for numberParseFloat / '
                 'numberParseInt. Non-trivial: the double is not an integer below 1000; distinct = distinct bit pattern / text.'),
        'exhaustive': False,
        'assumptions': ['integral values are required to print as -?digits only below 1e16 (positional notation); above that only "no '
                        'trailing-zero fraction" is required', 'Python-liberal numerals (1_000, surrounding blanks, non-ASCII digits) are not used as near-misses'],
    }


def _api():
    import bare_script
    from bare_script.library import SCRIPT_FUNCTIONS
    from bare_script.value import value_string
    return bare_script, SCRIPT_FUNCTIONS, value_string


def check_number(x, acc, api, script=None, via_script=False):
    bare_script, lib, value_string = api
    case = {'x': refval.enc(x)}
    texts = {'value_string': value_string(x)}
    if via_script:
        logs = []
        res = bare_script.execute_script(script, {'globals': {'xx': x}, 'logFn': logs.append})
        texts.update({'concat': res[0], 'stringNew': res[1], 'arrayJoin': res[2], 'systemLog': logs[0] if logs else None})
        acc.count('script_path_checks')
    acc.case(struct.pack('>d', float(x)).hex() + ('i' if isinstance(x, int) else 'f'), not (x == int(x) and abs(x) < 1000))
    first = texts['value_string']
    for path, t in texts.items():
        if not isinstance(t, str):
            acc.violation('text-not-a-string', f'{path}: {t!r} for {x!r}', case)
            return
        if t != first:
            acc.violation('paths-disagree', f'{path} gives {t!r} but value_string gives {first!r} for {x!r}', case)
            return
    t = first
    back = lib['numberParseFloat']([t], None)
    if back is None or not isinstance(back, (int, float)) or back != x or (x == 0 and isinstance(x, float) and math.copysign(1, back) != math.copysign(1, x)):
        acc.violation('round-trip', f'{x!r} -> {t!r} -> {back!r}', case)
        return
    if _BAD_FRACTION.search(t):
        acc.violation('trailing-zero-fraction', f'{x!r} -> {t!r}', case)
        return
    if x == int(x) and abs(x) < 1e16 and not _INT_TEXT.match(t):
        acc.violation('integral-not-printed-as-integer', f'{x!r} -> {t!r}', case)
        return
    if x >= 0 and not (x == 0 and math.copysign(1, x) < 0):
        # as a numeric literal in source text
        try:
            lit = bare_script.parse_expression(t)
        except Exception as exc:  # pylint: disable=broad-except
            acc.violation('text-not-a-literal', f'{x!r} -> {t!r}: {type(exc).__name__}', case)
            return
        if lit != {'number': x} or not _LITERAL.match(t):
            if 'number' in lit and lit['number'] == x:
                pass
            else:
                acc.violation('literal-round-trip', f'{x!r} -> {t!r} -> {lit!r}', case)
                return
        acc.count('literal_checks')
    acc.count('round_trips')


def run_doubles(spec, acc, api):
    bare_script = api[0]
    script = bare_script.parse_script("return arrayNew('' + xx, stringNew(xx), arrayJoin(arrayNew(xx), ','), systemLog(xx))")
    rnd = random.Random(spec['seed'] * 1000003 + spec['shard'] * 7919 + 71)
    for i in range(spec['n']):
        bits = rnd.getrandbits(64)
        x = struct.unpack('>d', bits.to_bytes(8, 'big'))[0]
        if x != x or x in (math.inf, -math.inf):
            acc.count('skipped_non_finite')
            continue
        check_number(x, acc, api, script, via_script=(i % 10 == 0))
        if i % 7 == 0:
            # numbers of "human" shape: few significant digits, various exponents
            y = float(f'{rnd.randint(1, 99999)}e{rnd.randint(-30, 30)}') * rnd.choice([1, -1])
            check_number(y, acc, api, script, via_script=(i % 70 == 0))
    acc.sample({'example': ['0.1 + 0.2', api[2](0.1 + 0.2)], 'paths': ['value_string', "'' + x", 'stringNew', 'arrayJoin', 'systemLog']}, limit=1)


def run_special(acc, api):
    bare_script = api[0]
    script = bare_script.parse_script("return arrayNew('' + xx, stringNew(xx), arrayJoin(arrayNew(xx), ','), systemLog(xx))")
    vals = [0.0, -0.0, 0, 1, -1, 5e-324, -5e-324, 2.2250738585072014e-308, 2.225073858507201e-308, 1.7976931348623157e308, -1.7976931348623157e308]
    for e in range(-320, 309):
        for m in ('1', '1.5', '9.999999999999999', '2.5', '1.0000000000000002', '7'):
            try:
                v = float(f'{m}e{e}')
            except (OverflowError, ValueError):
                continue
            if v != 0 and v not in (math.inf,):
                vals += [v, -v]
    for base in (2 ** 53, 10 ** 15, 10 ** 16, 10 ** 21, 10 ** 22, 2 ** 63, 2 ** 64, 10 ** 6, 10 ** 9):
        for d in range(-4, 5):
            vals += [float(base + d), -float(base + d)]
            if abs(base + d) <= 2 ** 53:
                vals.append(base + d)  # the int spelling of a double-representable integer
    for k in range(0, 60):
        vals += [float(2 ** k), float(2 ** k) + 0.5, 10.0 ** (k % 23), 1 / (2 ** k)]
    for v in vals:
        check_number(v, acc, api, script, via_script=True)
    # no state between calls: a fresh process that stringifies the same numbers in reversed order gives the same texts
    from .. import core
    sample = [0.0, -0.0, 0, 1.0, 1, -1.0, 1e21, 1e-7, 0.1, 100.0, 1e15, 1e16, 5e-324, 2.5, -2.5] + vals[:2000]
    warm = [['ok', api[2](v)] for v in sample]
    cold = core.cold_reversed('value_string', [refval.enc(v) for v in sample], 0)
    if cold is None:
        acc.note_inconclusive('cold child process for the state check failed')
    else:
        for v, a, b in zip(sample, warm, cold):
            acc.count('cold_vs_warm_comparisons')
            if a != b:
                acc.violation('text-depends-on-earlier-calls', f'{v!r}: {a!r} in this process, {b!r} in a fresh process (reversed order)', {'x': refval.enc(v)})
                break
    # numeric literals in SOURCE text denote doubles: also digit strings that are not exactly representable (above 2**53), and
    # arithmetic on them; their text parses back to the same number
    lits = ['9007199254740993', '18014398509481985', '9007199254740992', '123456789012345678901234567890', '99999999999999999999999', '4503599627370497',
            '1' + '0' * 22, '1' + '0' * 23, '12345678901234567', '0', '7', '0.1', '1e+22', '1.5e+300', '2.5', '100', '3']
    rl = random.Random(7)
    lits += [''.join(rl.choice('0123456789') for _ in range(rl.randint(15, 30))).lstrip('0') or '1' for _ in range(60)]
    for L in lits:
        acc.case('literal:' + L, True)
        text = f"xx = {L}\nreturn arrayNew(xx, xx + 1, xx * 3, 0 - xx, '' + xx, numberParseFloat('' + xx), xx == numberParseFloat('' + xx))"
        try:
            res = bare_script.execute_script(bare_script.parse_script(text), {'globals': {}})
        except Exception as exc:  # pylint: disable=broad-except
            acc.violation('literal-script-raised', f'{L}: {type(exc).__name__}: {exc}', {'literal': L})
            continue
        acc.count('source_literal_checks')
        want = float(L)
        nums = res[:4] + [res[5]]
        bad = [r for r in nums if not isinstance(r, (int, float)) or isinstance(r, bool) or (isinstance(r, int) and int(float(r)) != r)]
        if bad:
            acc.violation('number-is-not-a-double', f'literal {L}: script values {bad!r:.200} are not IEEE doubles (results {res!r:.300})', {'literal': L})
        elif res[0] != want or res[1] != want + 1 or res[2] != want * 3 or res[5] != want or res[6] is not True:
            acc.violation('literal-round-trip', f'literal {L} (double {want!r}): script gives {res!r:.300}', {'literal': L})
    acc.cover('special_classes', 'source-literals-beyond-2^53')
    acc.cover('special_classes', 'powers-of-ten')
    acc.cover('special_classes', 'around-2^53-1e15-1e16-1e21')
    acc.cover('special_classes', 'subnormals-and-zeros')


NEAR = ['-nan', '+nan', '+NaN', '-NaN', ' -nan ', 'nan ', ' nan', '-Infinity', '+Infinity', '+infinity', ' inf', '-INF', 'nan', 'NaN', 'inf', '-inf', 'Infinity', '+inf', '1e999', '-1e999', '12abc', '1.2.3', '--1', '1e', '', ' ', '0x10', '1,5', 'abc', '1e+', '.', '-', '+',
        'e5', '1 2', '1..2', 'null', 'true', '1e5.5', '0b11', '1f', 'nan1', 'infinity', '- 1', '1-',
        # underscores at an end of the text (only an INNER underscore is a tolerated liberal extra of the pinned tree)
        '_15', '15_', '1.5_', '_1.5', '__2e+22', '_ 7 _', '_', '1_',
        # numerals beyond the double range, written with digits only (no exponent): not a number of the language
        '9' * 310, '1' + '0' * 309, '-' + '9' * 400, '1' + '0' * 400 + '.5', '1797693134862316' + '0' * 293]
GOOD = [('0', 0), ('1', 1), ('-1', -1), ('1.5', 1.5), ('1e3', 1000), ('1E3', 1000), ('-2.5e-3', -0.0025), ('007', 7), ('1.', 1), ('.5', 0.5), ('+3', 3),
        ('123456789012345678', 123456789012345678.0)]


def run_parsers(spec, acc, api):
    _, lib, _ = api
    pf, pi = lib['numberParseFloat'], lib['numberParseInt']

    def ok_float(v):
        return v is None or (isinstance(v, (int, float)) and not isinstance(v, bool) and v == v and v not in (math.inf, -math.inf))
    for t in NEAR:
        acc.case('near:' + t, True)
        try:
            v = pf([t], None)
        except Exception as exc:  # pylint: disable=broad-except
            acc.violation('parse-float-raised', f'{t!r}: {exc!r}', {'text': t})
            continue
        if v is not None:
            acc.violation('near-miss-accepted', f'numberParseFloat({t!r}) = {v!r}', {'text': t})
        for radix in (10, 16, 2, 36):
            try:
                w = pi([t, radix], None)
            except Exception as exc:  # pylint: disable=broad-except
                acc.violation('parse-int-raised', f'{t!r} radix {radix}: {exc!r}', {'text': t})
                continue
            want_none = t in ('', ' ', '.', '-', '+', '1.2.3', '--1', '1,5', '1 2', '1..2', '1e5.5', '1e+', '- 1', '1-', '1e999' if radix < 15 else '', '-1e999' if radix < 15 else '')
            if want_none and w is not None:
                acc.violation('near-miss-accepted', f'numberParseInt({t!r}, {radix}) = {w!r}', {'text': t, 'radix': radix})
            if w is not None and (not isinstance(w, int) or isinstance(w, bool)):
                acc.violation('parse-int-type', f'numberParseInt({t!r}, {radix}) = {w!r}', {'text': t})
    # a radix prefix is part of ONE numeral: nothing but digits of the radix may follow it
    for t, radix in [('0x-5', 16), ('0x 12', 16), ('0x0x10', 16), (' 0x -1f', 16), ('0x+5', 16), ('0X-a', 16), ('0x', 16), ('0b-1', 2), ('0b 1', 2), ('0o 7', 8), ('0o-7', 8), ('0b0b1', 2), ('0x-0x5', 16)]:
        acc.case(('prefix-then-sign', t, radix), True)
        try:
            w = pi([t, radix], None)
        except Exception as exc:  # pylint: disable=broad-except
            acc.violation('parse-int-raised', f'{t!r} radix {radix}: {exc!r}', {'text': t})
            continue
        if w is not None:
            acc.violation('near-miss-accepted', f'numberParseInt({t!r}, {radix}) = {w!r}', {'text': t, 'radix': radix})
    # without a radix the text is a DECIMAL numeral: leading zeros are digits, a radix prefix is not part of it
    for t, want in [('007', 7), ('010', 10), ('-08', -8), ('+0012', 12), ('00', 0), ('0b101', None), ('0o17', None), ('0x1F', None), ('0B1', None), ('0X10', None), ('1e3', None)]:
        for args in ([t], [t, 10], [t, 10.0]):
            acc.case(('decimal-default', t, len(args)), True)
            try:
                w = pi(list(args), None)
            except Exception as exc:  # pylint: disable=broad-except
                acc.violation('parse-int-raised', f'{t!r}: {exc!r}', {'text': t})
                continue
            if w != want or (w is not None and (not isinstance(w, int) or isinstance(w, bool))):
                acc.violation('parse-int-default-radix', f'numberParseInt({", ".join(map(repr, args))}) = {w!r}, expected {want!r}', {'text': t, 'args': len(args)})
    # numberParseInt never takes the integral part of a non-integer spelling (fractions, exponents): null, in every radix <= 10
    for t in ['1.5e+0', '1.2345e+2', '1e+2', '2.5e+1', '1.0e+0', '1e2', '1E2', '12.0', '12.', '.5', '+-1', '0.0', '1.5', '9.99e+1', '5e-1']:
        for radix in (None, 10, 8):
            acc.case(('parse-int-non-integer', t, radix), True)
            try:
                w = pi([t] if radix is None else [t, radix], None)
            except Exception as exc:  # pylint: disable=broad-except
                acc.violation('parse-int-raised', f'{t!r} radix {radix}: {exc!r}', {'text': t})
                continue
            acc.count('parse_int_non_integer_texts')
            if w is not None:
                acc.violation('partial-parse-int', f'numberParseInt({t!r}{"" if radix is None else ", " + str(radix)}) = {w!r}', {'text': t, 'radix': radix})
    for t, want in GOOD:
        acc.case('good:' + t, True)
        v = pf([t], None)
        if v != want:
            acc.violation('parse-float-value', f'numberParseFloat({t!r}) = {v!r}, expected {want!r}', {'text': t})
    rnd = random.Random(spec['seed'] * 7919 + 73)
    alphabet = '0123456789.eE+-x ,nainf_'
    for _ in range(spec['n']):
        t = ''.join(rnd.choice(alphabet) for _ in range(rnd.randint(0, 8)))
        acc.case('rand:' + t, len(t) > 1)
        try:
            v = pf([t], None)
            w = pi([t], None)
        except Exception as exc:  # pylint: disable=broad-except
            acc.violation('parser-raised', f'{t!r}: {exc!r}', {'text': t})
            continue
        if not ok_float(v):
            acc.violation('parse-float-non-finite', f'numberParseFloat({t!r}) = {v!r}', {'text': t})
        # partial values: a result must be the value of the WHOLE text (a strict decimal grammar, blanks/underscores are liberal extras)
        strict = re.fullmatch(r'[+-]?(\d+\.?\d*|\.\d+)([eE][+-]?\d+)?', t)
        if v is not None and not strict and '_' not in t and t.strip() == t:
            acc.violation('partial-parse', f'numberParseFloat({t!r}) = {v!r}', {'text': t})
        if strict and v is None and abs(float(t)) != math.inf:
            acc.violation('well-formed-rejected', f'numberParseFloat({t!r}) = None', {'text': t})
        if w is not None and not re.fullmatch(r'[+-]?\d+', t.strip().replace('_', '')):
            acc.violation('partial-parse-int', f'numberParseInt({t!r}) = {w!r}', {'text': t})
        acc.count('random_parser_texts')
    acc.sample({'near_misses': NEAR[:12]}, limit=1)


def run_shard(spec, acc):
    api = _api()
    if spec['part'] == 'doubles':
        run_doubles(spec, acc, api)
    elif spec['part'] == 'special':
        run_special(acc, api)
    else:
        run_parsers(spec, acc, api)


def replay(spec, acc):
    api = _api()
    case = spec['case']
    if 'x' in case:
        bare_script = api[0]
        script = bare_script.parse_script("return arrayNew('' + xx, stringNew(xx), arrayJoin(arrayNew(xx), ','), systemLog(xx))")
        check_number(refval.dec(case['x']), acc, api, script, via_script=True)
    else:
        acc.note_inconclusive('replay by re-running: ./check C13 quick')
