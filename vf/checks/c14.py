"""C14 - JSON serialisation is faithful: jsonParse(jsonStringify(v)) equals v.
Oracle: the standard library's json.loads as an independent parser, structural equality, sorted-key / integral-number
text checks and a collision table over every serialised text of the shard."""
import itertools
import json
import math
import random
import re
import struct

from .. import refval

ALPHABET = ['a', '.', '0', ',', ']', '}']


def plan(tier, seed):
    specs = []
    if tier == 'quick':
        specs.append({'part': 'exhaustive', 'maxlen': 3, 'mod': 1, 'rem': 0})
        nr, nsh = 8000, 16
    else:
        for sh in range(8):
            specs.append({'part': 'exhaustive', 'maxlen': 4, 'mod': 8, 'rem': sh})
        nr, nsh = 60000, 16
    for sh in range(nsh):
        specs.append({'part': 'random', 'n': nr, 'shard': sh})
    return specs


def meta(tier):
    k = 3 if tier == 'quick' else 4
    n = sum(6 ** i for i in range(0, k + 1))
    return {
        'level': 'exploration',
        'rule': (f'(a) every string of length <= {k} over the alphabet {ALPHABET} ({n} strings) as a value, as an array element, as an object '
                 'value and as an object key, with indent none/2; (b) seeded random JSON values to depth 5 whose strings draw from . 0 , ] } '
                 '" \\ / control characters, non-BMP code points and lone surrogates, numbers from the C13 classes, indent in {none, 1..8}; '
                 'each serialised through jsonStringify and value_json, parsed back with json.loads and jsonParse. Non-trivial: the value '
                 'contains a string or key of length >= 1 or a non-integral number; distinct = distinct serialised value.'),
        'exhaustive': True,
        'extra': {'exhaustive_part': f'all {n} strings of length <= {k} over the 6-character alphabet in 4 positions x 2 indents'},
        'assumptions': ['numbers are finite; object keys are strings; no cyclic containers'],
    }


def _api():
    from bare_script.library import SCRIPT_FUNCTIONS
    from bare_script.value import value_json
    return SCRIPT_FUNCTIONS, value_json


def jeq(a, b):
    """Structural equality with BareScript number equality (1 == 1.0), key order irrelevant."""
    if isinstance(a, bool) or isinstance(b, bool):
        return a is b
    if isinstance(a, (int, float)) and isinstance(b, (int, float)):
        return a == b
    if type(a) is not type(b):
        return False
    if isinstance(a, list):
        return len(a) == len(b) and all(jeq(x, y) for x, y in zip(a, b))
    if isinstance(a, dict):
        return a.keys() == b.keys() and all(jeq(a[k], b[k]) for k in a)
    return a == b


def canon_key(v):
    return json.dumps(refval.canon(v), sort_keys=True, ensure_ascii=True)


_NUM_TOKEN = re.compile(r'(?<![\w"])-?\d+\.\d+(?:[eE][+-]?\d+)?|(?<![\w"])-?\d+(?:[eE][+-]?\d+)?')


def check_value(v, indent, acc, api, table, nontrivial=True):
    lib, value_json = api
    case = {'value': refval.enc(v), 'indent': indent}
    acc.case(canon_key(v) + f'|{indent}', nontrivial)
    try:
        args = [v] if indent is None else [v, float(indent)]
        text = lib['jsonStringify'](list(args), None)
        text2 = value_json(v, indent)
    except Exception as exc:  # pylint: disable=broad-except
        acc.violation('stringify-raised', f'{v!r:.200}: {type(exc).__name__}: {exc}', case)
        return
    if text != text2:
        acc.violation('jsonStringify-vs-value_json', f'{text!r:.200} vs {text2!r:.200}', case)
        return
    try:
        back = json.loads(text)
    except Exception as exc:  # pylint: disable=broad-except
        acc.violation('invalid-json', f'{v!r:.200} -> {text!r:.300}: {exc}', case)
        return
    if not jeq(back, v):
        acc.violation('round-trip-json-loads', f'{v!r:.200} -> {text!r:.300} -> {back!r:.200}', case)
        return
    try:
        back2 = lib['jsonParse']([text], None)
    except Exception as exc:  # pylint: disable=broad-except
        acc.violation('jsonParse-raised', f'{text!r:.300}: {exc}', case)
        return
    if not jeq(back2, v):
        acc.violation('round-trip-jsonParse', f'{v!r:.200} -> {text!r:.300} -> {back2!r:.200}', case)
        return
    if isinstance(back2, (list, dict)):
        # history: the parsed value belongs to the script; editing it must not influence a later parse of the same text
        if isinstance(back2, list):
            back2.append('edited')
        else:
            back2['$edited'] = 1
        back3 = lib['jsonParse']([text], None)
        if not jeq(back3, v):
            acc.violation('jsonParse-result-shared', f'after editing an earlier result, jsonParse({text!r:.200}) = {back3!r:.200}', case)
            return
    # sorted keys: re-decoding with order preserved must give sorted key sequences everywhere
    ordered = json.loads(text, object_pairs_hook=lambda pairs: ('$obj', pairs))
    if not keys_sorted(ordered):
        acc.violation('keys-not-sorted', f'{text!r:.300}', case)
        return
    # integral numbers without a fraction: compare number tokens outside strings
    bare = strip_strings(text)
    for tok in _NUM_TOKEN.findall(bare):
        if re.search(r'\.0*(?:[eE]|$)', tok):
            acc.violation('integral-number-with-fraction', f'token {tok!r} in {text!r:.300}', case)
            return
    # collision table: different values never share a text (same indent class)
    key = (text, indent is None)
    ck = canon_key(v)
    prev = table.get(key)
    if prev is not None and prev != ck:
        acc.violation('two-values-one-text', f'{text!r:.300} <- {prev:.200} and {ck:.200}', case)
        return
    table[key] = ck
    acc.count('round_trips')


def keys_sorted(node):
    if isinstance(node, tuple) and node and node[0] == '$obj':
        ks = [k for k, _ in node[1]]
        return ks == sorted(ks) and all(keys_sorted(x) for _, x in node[1])
    if isinstance(node, list):
        return all(keys_sorted(x) for x in node)
    return True


def strip_strings(text):
    out = []
    i, n = 0, len(text)
    while i < n:
        c = text[i]
        if c == '"':
            i += 1
            while i < n and text[i] != '"':
                i += 2 if text[i] == '\\' else 1
            i += 1
            out.append('""')
        else:
            out.append(c)
            i += 1
    return ''.join(out)


def run_exhaustive(spec, acc, api):
    table = {}
    ix = 0
    for k in range(0, spec['maxlen'] + 1):
        for tup in itertools.product(ALPHABET, repeat=k):
            ix += 1
            if ix % spec['mod'] != spec['rem']:
                continue
            s = ''.join(tup)
            for indent in (None, 2):
                check_value(s, indent, acc, api, table, k >= 1)
                check_value([s, 1.0], indent, acc, api, table, k >= 1)
                check_value({'k': s, 'n': 2.0}, indent, acc, api, table, k >= 1)
                check_value({s: 1.0, 'z': [s]}, indent, acc, api, table, k >= 1)
    acc.sample({'strings': ['.0]', 'a.,', '0.0}', '.0,a'], 'positions': ['value', 'array element', 'object value', 'object key'], 'indents': [None, 2]}, limit=1)


CHARS = ['a', 'b', '.', '0', ',', ']', '}', '"', '\\', '/', '\n', '\t', '\x00', '\x1f', '\x7f', ' ', 'é', ' ', '\U0001F600', '\ud800', '\udfff', ':', '{', '[', "'", '1', 'e', '-', '+']


_PAIR = re.compile('[\ud800-\udbff][\udc00-\udfff]')


# strings that LOOK like another JSON-writable type (what the serialiser writes for a datetime, a date, a number, a literal)
TYPELIKE = ['2024-03-10T02:30:00-08:00', '2024-03-10T02:30:00.123+00:00', '2020-01-01T00:00:00Z', '2020-01-01', '2021-12-31T23:59:59.999+05:45', '1970-01-01T00:00:00+00:00',
            'true', 'false', 'null', '[]', '{}', '"quoted"', '12', '-0.5', '/Date(0)/', '<function>', '<regex>']
NUMLIKE = ['1e-07', '1e-05', '1e-5', '2.50', '1.0', '-0', '1E+3', '1.0e+20', '0.0', 'tolerance 1e-07 x', '3.0,', '[1.0]', '{"a":1.0}', '1.50e-03', 'null', 'true',
           '5" pipe', 'a\\"b', '\\', '"', 'x.0"', '".0,']


def rand_string(rnd):
    if rnd.random() < 0.15:
        return rnd.choice(NUMLIKE)
    if rnd.random() < 0.06:
        return rnd.choice(TYPELIKE)
    s = ''.join(rnd.choice(CHARS) for _ in range(rnd.randint(0, 7)))
    # a lone high surrogate directly followed by a lone low one IS a non-BMP character in JSON (UTF-16): not a distinct value
    while _PAIR.search(s):
        s = _PAIR.sub('\ud800', s)
    return s


def rand_number(rnd):
    x = rnd.random()
    if x < 0.3:
        return float(rnd.randint(-1000, 1000))
    if x < 0.45:
        return rnd.randint(-10 ** 6, 10 ** 6)
    if x < 0.6:
        return rnd.choice([0.5, -2.25, 1e21, 1e-7, 1.5e300, 5e-324, 1e15, 1e16, 2.0 ** 53, 123456789012345.0, 0.1, -0.0, 10.0, 100.0, 1e22, 1.0e-5])
    if x < 0.66:
        # integers a host (or numberParseInt) hands over exactly: beyond 2**53 they have no float spelling, and are still written and read back exactly
        return rnd.choice([1, -1]) * rnd.choice([2 ** 53 + 1, 2 ** 63, 2 ** 64 - 1, 1234567890123456789, 10 ** 18 + 1, rnd.randint(2 ** 53, 2 ** 70)])
    bits = rnd.getrandbits(64)
    v = struct.unpack('>d', bits.to_bytes(8, 'big'))[0]
    return v if v == v and v not in (math.inf, -math.inf) else 1.25


def rand_value(rnd, depth):
    x = rnd.random()
    if depth <= 0 or x < 0.35:
        y = rnd.random()
        if y < 0.4:
            return rand_string(rnd)
        if y < 0.8:
            return rand_number(rnd)
        return rnd.choice([None, True, False])
    if x < 0.7:
        return [rand_value(rnd, depth - 1) for _ in range(rnd.randint(0, 4))]
    return {rand_string(rnd): rand_value(rnd, depth - 1) for _ in range(rnd.randint(0, 4))}


def run_random(spec, acc, api):
    table = {}
    rnd = random.Random(spec['seed'] * 1000003 + spec['shard'] * 7919 + 79)
    for i in range(spec['n']):
        v = rand_value(rnd, rnd.randint(0, 5))
        indent = rnd.choice([None, None, 1, 2, 3, 4, 8, 5, 6, 7])
        check_value(v, indent, acc, api, table, True)
        if i % 6 == 0:
            # values are graphs in the host: the SAME array / object may be a member twice (shared, not cyclic) - it is written twice
            shared = rand_value(rnd, rnd.randint(1, 3))
            if not isinstance(shared, (list, dict)):
                shared = [shared]
            inner = {'p': shared, 'q': [shared, rand_value(rnd, 1)]}
            v2 = rnd.choice([[shared, shared], {'first': shared, 'last': shared}, [inner, shared, inner], {'a': [shared], 'b': {'c': shared}}, [[], []], [{}, {}, []]])
            check_value(v2, indent, acc, api, table, True)
            acc.count('shared_member_values')
        if i % 5 == 2 and isinstance(v, (list, dict)) and v:
            # history: the value is written, changed IN PLACE (a member replaced, a nested member replaced, the length kept) and written
            # again - the second text is the text of the value as it is now
            import copy
            edit_in_place(v, rnd)
            check_value(v, indent, acc, api, table, True)
            fresh = copy.deepcopy(v)
            lib, value_json = api
            args_now, args_fresh = ([v], [fresh]) if indent is None else ([v, float(indent)], [fresh, float(indent)])
            if lib['jsonStringify'](args_now, None) != lib['jsonStringify'](args_fresh, None) or value_json(v, indent) != value_json(fresh, indent):
                acc.violation('text-of-an-edited-value-is-stale', f'{lib["jsonStringify"](args_now, None)!r:.200} for the value {fresh!r:.200}', {'value': refval.enc(fresh), 'indent': indent, 'history': 'edited in place'})
            acc.count('edited_in_place_values')
        if len(acc.samples) < 2 and isinstance(v, dict) and len(v) >= 2:
            acc.sample({'value': refval.canon(v), 'indent': indent})


def edit_in_place(v, rnd):
    """Replace one member (at the top or one level down) by another scalar; the container keeps its identity and its length."""
    target = v
    if rnd.random() < 0.5:
        nested = [m for m in (v.values() if isinstance(v, dict) else v) if isinstance(m, (list, dict)) and m]
        if nested:
            target = rnd.choice(nested)
    new = rnd.choice(['edited', 12345.0, None, True, 0.5, 'x\u00e9"'])
    if isinstance(target, dict):
        target[rnd.choice(sorted(target))] = new
    else:
        target[rnd.randrange(len(target))] = new


def failure_history(spec, acc, api):
    """History with FAILED serialisations in between: a value that cannot be written (a non-finite number inside it, a container that
    contains itself) is repaired in place and serialised again - the earlier failure leaves no trace, in compact and indented mode."""
    lib, value_json = api
    rnd = random.Random(spec['seed'] * 7919 + 151)
    table = {}
    for i in range(spec['n'] // 40 + 20):
        v = rand_value(rnd, rnd.randint(1, 4))
        if not isinstance(v, (list, dict)):
            v = [v, {'k': v}]
        # find a container inside v to poison
        holder = v
        while True:
            inner = [x for x in (holder if isinstance(holder, list) else holder.values()) if isinstance(x, (list, dict))]
            if not inner or rnd.random() < 0.4:
                break
            holder = rnd.choice(inner)
        poison = rnd.choice(['nan', 'inf', 'cycle', 'cycle-outer'])
        bad = float('nan') if poison == 'nan' else (float('inf') if poison == 'inf' else (holder if poison == 'cycle' else v))
        if isinstance(holder, list):
            holder.append(bad)
        else:
            holder['$poison'] = bad
        for indent in (None, 2):
            try:
                lib['jsonStringify']([v] if indent is None else [v, float(indent)], None)
                value_json(v, indent)
            except Exception:  # pylint: disable=broad-except
                pass  # failing here is fine (what a failed serialisation returns is not this property)
            acc.count('failed_serialisations_before_repair')
        if isinstance(holder, list):
            holder.pop()
        else:
            del holder['$poison']
        for indent in (None, 2, None):
            check_value(v, indent, acc, api, table, True)
    acc.cover('history_kinds', 'failed-then-repaired')


def state_check(spec, acc, api):
    """No state between calls: serialise + parse the same values in a fresh process in reversed order."""
    from .. import core
    lib, value_json = api
    rnd = random.Random(spec['seed'] * 7919 + 137)
    vals = [rand_value(rnd, rnd.randint(0, 4)) for _ in range(1500)]
    vals += [[s] for s in NUMLIKE] + [{'k': s} for s in NUMLIKE] + [1.0, 1, -0.0, 0, [1.0], [1], {'a': 1.0}, {'a': 1}]
    warm = []
    for v in vals:
        t = value_json(v)
        warm.append(['ok', t, refval.enc(lib['jsonParse']([t], None))])
    cold = core.cold_reversed('json_roundtrip', [refval.enc(v) for v in vals], spec['seed'])
    if cold is None:
        acc.note_inconclusive('cold child process for the state check failed')
        return
    for v, a, b in zip(vals, warm, cold):
        acc.count('cold_vs_warm_comparisons')
        if a != b:
            acc.violation('json-depends-on-earlier-calls', f'{v!r:.200}: {a!r:.300} in this process, {b!r:.300} in a fresh process (reversed order)', {'value': refval.enc(v), 'indent': None})
            return


def run_shard(spec, acc):
    api = _api()
    if spec['part'] == 'exhaustive':
        run_exhaustive(spec, acc, api)
    else:
        run_random(spec, acc, api)
        if spec['shard'] == 0:
            state_check(spec, acc, api)
        if spec['shard'] in (1, 2):
            failure_history(spec, acc, api)


def replay(spec, acc):
    api = _api()
    case = spec['case']
    if 'value' not in case:
        acc.note_inconclusive('finding-level replay entry')
        return
    check_value(refval.dec(case['value']), case.get('indent'), acc, api, {}, True)
