"""C11 - value comparison is a total preorder and every consumer agrees with it.
Oracle: order axioms + independent comparator (refval.rcmp); monitors: value_compare contract, consumer scripts."""
import datetime
import functools
import itertools
import json
import random
import re

from .. import refval
from ..refval import rcmp

TZ = datetime.timezone


# instants and wall-clock times around the US DST changes (under a DST zone the autumn hour 01:00-02:00 occurs twice, so the
# order of instants and the order of local wall-clock readings differ there); harmless ordinary values under UTC
DST_POOL = [
    datetime.datetime(2024, 11, 3, 5, 45, tzinfo=TZ.utc), datetime.datetime(2024, 11, 3, 6, 15, tzinfo=TZ.utc),
    datetime.datetime(2024, 11, 3, 1, 30), datetime.datetime(2024, 11, 3, 1, 30, fold=1), datetime.date(2024, 11, 3),
    datetime.datetime(2024, 11, 3, 0, 50, tzinfo=TZ(datetime.timedelta(hours=-5))), datetime.datetime(2024, 11, 3, 7, 5, tzinfo=TZ(datetime.timedelta(hours=1))),
    datetime.datetime(2024, 3, 10, 6, 59, 59, tzinfo=TZ.utc), datetime.datetime(2024, 3, 10, 7, 0, tzinfo=TZ.utc), datetime.datetime(2024, 3, 10, 2, 30),
    datetime.datetime(2024, 3, 10, 3, 0),
]


def pool():
    def f1(args, options):
        return 1

    def f2(args, options):
        return 2
    base = [
        None, True, False,
        0, 0.0, -0.0, 1, 1.0, -1, -1.0, 2, 2.5, -2.5, 3, 7, 0.1, 1e15, 10 ** 15, 1e16, 10 ** 16, 2 ** 53, float(2 ** 53), 2 ** 53 + 1, 1e308, -1e308,
        # neighbouring doubles a few ulps apart and adjacent large integers: all different, ordered values
        1.0000000000000002, 1.0000000000000009, 1.0000000000000018, 3.0000000000000004, 1700000000000, 1700000000001, 1700000000000.5, 0.30000000000000004, 0.3,
        5e-324, float('inf'), float('-inf'), 10 ** 400, -10 ** 400, 123456789012345678, 1.2345678901234568e17,
        '', 'a', 'ab', 'b', 'B', '1', '10', '2', 'null', 'true', ' ', 'a ', 'é', 'z',
        datetime.datetime(2020, 1, 1), datetime.date(2020, 1, 1), datetime.datetime(2020, 1, 1, 0, 0, 0, 5000),
        datetime.datetime(2020, 1, 1, tzinfo=TZ.utc), datetime.datetime(2019, 12, 31, 19, 0, tzinfo=TZ(datetime.timedelta(hours=-5))),
        datetime.datetime(2020, 6, 1, 12, tzinfo=TZ.utc), datetime.datetime(2020, 6, 1, 12), datetime.date(2020, 6, 1), datetime.date(1970, 1, 1),
        datetime.datetime(1999, 12, 31, 23, 59, 59, 999000), datetime.date(2000, 1, 1),
        # closer than a millisecond (host datetimes carry microseconds): still three different, ordered values
        datetime.datetime(2020, 1, 1, 0, 0, 0, 400), datetime.datetime(2020, 1, 1, 0, 0, 0, 800), datetime.datetime(2020, 1, 1, 0, 0, 0, 1200),
    ] + DST_POOL + [
        [], [None], [0], [1], [1.0], [1, 2], [1, 2.0], [2], [1, [2]], [1, [2, 3]], [[1]], [[]], ['a'], ['a', 1], [True], [None, None], [[1, 2], 3],
        {}, {'a': 1}, {'a': 1.0}, {'a': 2}, {'b': 1}, {'a': 1, 'b': 2}, {'b': 2, 'a': 1}, {'a': None}, {'a': [1]}, {'a': {'b': 1}}, {'a': {'b': 1.0}}, {'': 0}, {'a': True}, {'a': False}, {'a': 0}, {'a': [True]}, {'a': {'b': True}}, {'a': {'b': 0}}, {'a': 1, 'b': True}, {'a': '1'}, {'b': 1, 'a': 2}, {'b': 2, 'a': 1}, {'b': 0, 'a': 3}, {'c': 1, 'b': 5, 'a': 0}, {'c': 2, 'b': 0, 'a': 0}, {'z': [1], 'y': [2]}, {'z': [2], 'y': [1]}, {'b': 0, 'c': 1}, {'a': 1, 'b': 1}, {'a': 0, 'c': 2}, {'b': 5, 'c': 0}, {'a': 9, 'c': 0}, {'b': 1, 'd': 0},
        [1, 3], [1, 2, 3], [3], [2, 1], [[2]], [[1, 3]], [0, 5], [False], [0], [[True]], [[1]],
        f1, f2, re.compile('a'), re.compile('b'),
        # functions of every host kind are values of the ONE type function: a partial application (what a script function and a
        # systemPartial result are), a built-in, a lambda
        functools.partial(f1), functools.partial(f2, [1]), len, (lambda args, options: 3),
    ]
    # derived nested values up to depth 3
    nested = []
    for x in base[:40:3]:
        nested.append([x])
        nested.append({'k': x})
        nested.append([[x], {'k': [x]}])
    return base + nested


def plan(tier, seed):
    specs = [{'part': 'pairs', 'env': {'TZ': 'UTC'}}, {'part': 'pairs', 'env': {'TZ': 'America/New_York'}}, {'part': 'pairs', 'env': {'TZ': 'Asia/Kolkata'}}]
    for tz in ('America/New_York', 'EST5EDT,M3.2.0,M11.1.0', 'Europe/London'):
        specs.append({'part': 'dst', 'env': {'TZ': tz}})
    nt = 4 if tier == 'quick' else 16
    for sh in range(nt):
        specs.append({'part': 'triples', 'mod': nt, 'rem': sh, 'sub': 60 if tier == 'quick' else 128, 'nrandom': 20000 if tier == 'quick' else 400000})
    nc = 4 if tier == 'quick' else 16
    for sh in range(nc):
        specs.append({'part': 'consumers', 'n': 400 if tier == 'quick' else 20000, 'shard': sh})
    return specs


def meta(tier):
    n = len(pool())
    return {
        'level': 'exploration',
        'rule': (f'pool of {n} values of all nine types (int/float/bool spellings, date vs naive vs aware datetimes incl. the repeated and skipped hours of the US daylight-saving changes (pairs and all datetime triples re-run under America/New_York, a POSIX EST5EDT rule and Europe/London), empty and nested '
                 'containers to depth 3, +-inf, 10**15 vs 1e15, big integers); ALL ordered pairs (range, reflexivity, antisymmetry, '
                 'agreement with the independent comparator, int/float insensitivity), ALL triples of a sub-pool plus random triples '
                 '(transitivity of <=), and consumers through scripts: the six operators as sign tests, systemCompare, arraySort, '
                 'dataSort multi-key with directions, mathMin/mathMax, arrayIndexOf/arrayLastIndexOf. Non-trivial: values of the case '
                 'are not all identical objects; distinct = distinct value tuple.'),
        'exhaustive': True,
        'extra': {'exhaustive_part': f'all {n * n} ordered pairs of the pool; all triples of the sub-pool'},
        'assumptions': ['NaN excluded (as stated); no cyclic containers'],
    }


def _api():
    import bare_script
    from bare_script.library import SCRIPT_FUNCTIONS
    from bare_script.value import value_compare
    return bare_script, SCRIPT_FUNCTIONS, value_compare


def flt(v):
    """Same value with integral ints turned into floats (recursively) - the other spelling of the number."""
    if isinstance(v, bool):
        return v
    if isinstance(v, int) and abs(v) < 10 ** 15:
        return float(v)
    if isinstance(v, list):
        return [flt(x) for x in v]
    if isinstance(v, dict):
        return {k: flt(x) for k, x in v.items()}
    return v


def run_pairs(acc, api):
    _, _, value_compare = api
    P = pool()
    for i, a in enumerate(P):
        for j, b in enumerate(P):
            case = {'a': refval.enc(a), 'b': refval.enc(b)}
            acc.case((i, j), i != j)
            try:
                c = value_compare(a, b)
                d = value_compare(b, a)
            except Exception as exc:  # pylint: disable=broad-except
                acc.violation('compare-raised', f'{a!r} vs {b!r}: {type(exc).__name__}: {exc}', case)
                continue
            if c not in (-1, 0, 1) or isinstance(c, bool):
                acc.violation('compare-range', f'cmp({a!r},{b!r}) = {c!r}', case)
                continue
            if c != -d:
                acc.violation('antisymmetry', f'cmp({a!r},{b!r})={c} cmp({b!r},{a!r})={d}', case)
                continue
            r = rcmp(a, b)
            if c != r:
                acc.violation('differs-from-reference-order', f'cmp({a!r},{b!r})={c}, reference {r}', case)
                continue
            if i == j and c != 0:
                acc.violation('reflexivity', f'cmp(x,x)={c} for {a!r}', case)
            try:
                cf = value_compare(flt(a), b)
            except Exception as exc:  # pylint: disable=broad-except
                acc.violation('compare-raised', f'{flt(a)!r} vs {b!r}: {type(exc).__name__}: {exc}', case)
                continue
            if cf != c:
                acc.violation('int-float-sensitive', f'cmp({a!r},{b!r})={c} but with the float spelling of the left value {cf}', case)
            acc.cover('type_pairs', f'{refval.rtype(a)} {refval.rtype(b)}')
    acc.sample({'pool_size': len(P), 'example_pairs': [[repr(P[3]), repr(P[4]), 0], ["'10'", "'2'", -1], ['[1, 2]', '[1, 2.0]', 0]]}, limit=1)


def run_triples(spec, acc, api):
    _, _, value_compare = api
    P = pool()
    rnd0 = random.Random(12345)
    sub = P[:]
    rnd0.shuffle(sub)
    sub = sub[:spec['sub']]
    n = len(sub)
    m = [[value_compare(a, b) for b in sub] for a in sub]
    ix = 0
    for i in range(n):
        for j in range(n):
            if m[i][j] > 0:
                continue
            for k in range(n):
                ix += 1
                if ix % spec['mod'] != spec['rem']:
                    continue
                acc.case((i, j, k), not (i == j == k))
                if m[j][k] <= 0 and m[i][k] > 0:
                    acc.violation('transitivity', f'{sub[i]!r} <= {sub[j]!r} <= {sub[k]!r} but cmp(first,last)={m[i][k]}',
                                  {'a': refval.enc(sub[i]), 'b': refval.enc(sub[j]), 'c': refval.enc(sub[k])})
                if m[i][j] == 0 and m[j][k] == 0 and m[i][k] != 0:
                    acc.violation('equivalence-not-transitive', f'{sub[i]!r} ~ {sub[j]!r} ~ {sub[k]!r}', {'a': refval.enc(sub[i])})
    rnd = random.Random(spec['seed'] * 7919 + spec['rem'])
    N = len(P)
    full = {}

    def cm(i, j):
        if (i, j) not in full:
            full[(i, j)] = value_compare(P[i], P[j])
        return full[(i, j)]
    for _ in range(spec['nrandom']):
        i, j, k = rnd.randrange(N), rnd.randrange(N), rnd.randrange(N)
        acc.case(('r', i, j, k), not (i == j == k))
        if cm(i, j) <= 0 and cm(j, k) <= 0 and cm(i, k) > 0:
            acc.violation('transitivity', f'{P[i]!r} <= {P[j]!r} <= {P[k]!r} but cmp(first,last)={cm(i, k)}',
                          {'a': refval.enc(P[i]), 'b': refval.enc(P[j]), 'c': refval.enc(P[k])})


def run_dst(spec, acc, api):
    """Under a zone with daylight saving: ALL triples of the datetime values (aware, naive, date; inside the repeated and the
    skipped hour) are transitive, and sorting / min / max agree with the pairwise comparison."""
    bare_script, lib, value_compare = api
    P = [v for v in pool() if isinstance(v, datetime.date)]
    n = len(P)
    m = [[value_compare(a, b) for b in P] for a in P]
    for i in range(n):
        for j in range(n):
            if m[i][j] != -m[j][i]:
                acc.violation('antisymmetry', f'cmp({P[i]!r},{P[j]!r})={m[i][j]} back={m[j][i]}', {'a': refval.enc(P[i]), 'b': refval.enc(P[j])})
            for k in range(n):
                acc.case(('dst', i, j, k), not (i == j == k))
                if m[i][j] <= 0 and m[j][k] <= 0 and m[i][k] > 0:
                    acc.violation('transitivity', f'TZ={spec["env"]["TZ"]}: {P[i]!r} <= {P[j]!r} <= {P[k]!r} but cmp(first,last)={m[i][k]}',
                                  {'a': refval.enc(P[i]), 'b': refval.enc(P[j]), 'c': refval.enc(P[k])})
    rnd = random.Random(spec['seed'] + 77)
    for _ in range(300):
        xs = [rnd.choice(P) for _ in range(rnd.randint(2, 7))]
        acc.case(('dst-sort', repr(xs)), True)
        s = lib['arraySort']([list(xs)], None)
        lo, hi = lib['mathMin'](list(xs), None), lib['mathMax'](list(xs), None)
        if any(value_compare(s[k], s[k + 1]) > 0 for k in range(len(s) - 1)):
            acc.violation('sort-not-ordered', f'TZ={spec["env"]["TZ"]}: {xs!r} -> {s!r}', {'xs': refval.enc(xs)})
        if any(value_compare(lo, x) > 0 for x in xs) or any(value_compare(hi, x) < 0 for x in xs):
            acc.violation('min-max-not-extreme', f'TZ={spec["env"]["TZ"]}: {xs!r} -> min {lo!r} max {hi!r}', {'xs': refval.enc(xs)})
    acc.count('dst_zone_runs')
    acc.cover('dst_zones', spec['env']['TZ'])


def run_consumers(spec, acc, api):
    bare_script, lib, value_compare = api
    from ..contracts import Contracts
    con = Contracts().install({'value_compare'})
    P = [v for v in pool()]
    rnd = random.Random(spec['seed'] * 1000003 + spec['shard'] * 7919 + 59)
    script = bare_script.parse_script('''\
function run(xs, a, b):
    res = objectNew()
    objectSet(res, 'cmp', systemCompare(a, b))
    objectSet(res, 'ops', arrayNew(a == b, a != b, a < b, a <= b, a > b, a >= b))
    objectSet(res, 'sorted', arraySort(arrayCopy(xs)))
    objectSet(res, 'min', mathMin(arrayGet(xs, 0), arrayGet(xs, 1), arrayGet(xs, 2), a))
    objectSet(res, 'max', mathMax(arrayGet(xs, 0), arrayGet(xs, 1), arrayGet(xs, 2), a))
    objectSet(res, 'min1', arrayNew(mathMin(a), mathMax(a), mathMin(xs), mathMax(xs)))
    objectSet(res, 'ix', arrayIndexOf(xs, a))
    objectSet(res, 'lix', arrayLastIndexOf(xs, a))
    return res
endfunction
return run(xs, a, b)
''')
    special = [v for v in P if callable(v) or isinstance(v, re.Pattern)]
    special += [[special[0]], [special[1]], {'a': special[-5]}, {'a': special[-6]}, [1], 'a', 1]
    directed = [(a, b) for a in special for b in special] if spec['shard'] == 0 else []
    for i in range(spec['n'] + len(directed)):
        xs = [rnd.choice(P) for _ in range(rnd.randint(3, 9))]
        a = rnd.choice(xs) if rnd.random() < 0.6 else rnd.choice(P)
        if i < spec['n'] and i % 5 == 3:
            # arrays drawn from TWO neighbouring types only (numbers and booleans, numbers and strings, dates and numbers ...): the general
            # order applies to them as to any mixed array
            fam = rnd.choice([[True, False, 0, 1, 0.5, 2, -1, 1.0], ['a', 'B', '', 1, 10, '10'], [None, False, 0, ''], [[1], [True], [0.5], 1, True]])
            xs = [rnd.choice(fam) for _ in range(rnd.randint(3, 8))]
            a = rnd.choice(xs)
        if i >= spec['n']:
            # every pair of function / regex values (and containers of them) through all consumers: operators included
            a, b_directed = directed[i - spec['n']]
            xs = [a, b_directed, a] + xs[:2]
        if rnd.random() < 0.3:
            a = flt(a)
        if i % 4 == 1:
            # the needle is ANOTHER value of the pool that compares equal to an element (a date and the datetime at its midnight, an aware
            # and the equal naive datetime, two regexes, 1 and 1.0, containers of those): found exactly where the comparison says
            twins = [(x, y) for x in xs for y in P if y is not x and not callable(y) and rcmp(x, y) == 0 and type(x) is not type(y) or (isinstance(x, (list, dict)) and y is not x and rcmp(x, y) == 0 and repr(x) != repr(y))]
            if twins:
                a = rnd.choice(twins)[1]
                acc.count('needle_equal_but_other_value')
        b = rnd.choice(P) if i < spec['n'] else b_directed
        case = {'xs': refval.enc(xs), 'a': refval.enc(a), 'b': refval.enc(b)}
        acc.case((repr(refval.canon(xs)), repr(refval.canon(a)), repr(refval.canon(b))), True)
        try:
            res = bare_script.execute_script(script, {'globals': {'xs': xs, 'a': a, 'b': b}})
        except Exception as exc:  # pylint: disable=broad-except
            acc.violation('consumer-script-raised', f'{type(exc).__name__}: {exc}', case)
            continue
        c = rcmp(a, b)
        if res['cmp'] != c:
            acc.violation('systemCompare', f'systemCompare({a!r},{b!r})={res["cmp"]} reference {c}', case)
        want = [c == 0, c != 0, c < 0, c <= 0, c > 0, c >= 0]
        if res['ops'] != want:
            acc.violation('operators-not-sign-tests', f'{a!r} vs {b!r}: {res["ops"]} expected {want}', case)
        s = res['sorted']
        if sorted(map(id, s)) != sorted(map(id, xs)):
            acc.violation('sort-not-a-permutation', f'{xs!r} -> {s!r}', case)
        elif any(rcmp(s[k], s[k + 1]) > 0 for k in range(len(s) - 1)):
            acc.violation('sort-not-ordered', f'{xs!r} -> {s!r}', case)
        else:
            # stability: equal elements keep their input order
            for k in range(len(s) - 1):
                if rcmp(s[k], s[k + 1]) == 0:
                    p = [n for n, x in enumerate(xs) if x is s[k]]
                    q = [n for n, x in enumerate(xs) if x is s[k + 1]]
                    if s[k] is not s[k + 1] and min(p) > max(q):
                        acc.violation('sort-not-stable', f'{xs!r} -> {s!r}', case)
                        break
        cand = xs[:3] + [a]
        if not any(res['min'] is x or refval.veq(res['min'], x) for x in cand) or any(rcmp(res['min'], x) > 0 for x in cand):
            acc.violation('min-not-least', f'min{cand!r} = {res["min"]!r}', case)
        if not any(res['max'] is x or refval.veq(res['max'], x) for x in cand) or any(rcmp(res['max'], x) < 0 for x in cand):
            acc.violation('max-not-greatest', f'max{cand!r} = {res["max"]!r}', case)
        # one argument: it is its own least and greatest value, whatever its type (an array is ONE value)
        m1 = res['min1']
        if not (m1[0] is a or refval.veq(m1[0], a)) or not (m1[1] is a or refval.veq(m1[1], a)) or not refval.veq(m1[2], xs) or not refval.veq(m1[3], xs):
            acc.violation('min-max-of-one-argument', f'mathMin/mathMax({a!r}) = {m1[:2]!r}; mathMin/mathMax({xs!r:.200}) = {m1[2:]!r:.300}', case)
        fi = next((k for k, x in enumerate(xs) if rcmp(x, a) == 0), -1)
        li = next((k for k in range(len(xs) - 1, -1, -1) if rcmp(xs[k], a) == 0), -1)
        if callable(a):
            pass  # a function value is a match function for arrayIndexOf, not a search value
        elif res['ix'] != fi or res['lix'] != li:
            acc.violation('indexOf-disagrees-with-compare', f'arrayIndexOf({xs!r},{a!r})={res["ix"]}/{res["lix"]} expected {fi}/{li}', case)
        # dataSort multi-key with directions
        rows = [{'k': rnd.choice(P[:60]), 'j': rnd.choice([1, 2, 2.0, None, 'a']), 'n': n} for n in range(rnd.randint(2, 8))]
        desc1, desc2 = rnd.random() < 0.5, rnd.random() < 0.5
        try:
            out = lib['dataSort']([list(rows), [['k', desc1], ['j', desc2]]], None)
        except Exception as exc:  # pylint: disable=broad-except
            acc.violation('dataSort-raised', f'{exc!r}', case)
            continue

        def key_cmp(r1, r2):
            for f, d in (('k', desc1), ('j', desc2)):
                cc = rcmp(r1[f], r2[f])
                if cc:
                    return -cc if d else cc
            return 0
        if sorted(r['n'] for r in out) != list(range(len(rows))):
            acc.violation('dataSort-not-a-permutation', f'{rows!r}', case)
        else:
            for k in range(len(out) - 1):
                cc = key_cmp(out[k], out[k + 1])
                if cc > 0 or (cc == 0 and out[k]['n'] > out[k + 1]['n']):
                    acc.violation('dataSort-order', f'desc={desc1},{desc2}: {[(r["k"], r["j"], r["n"]) for r in out]!r:.500}', {'rows': refval.enc(rows), 'desc': [desc1, desc2]})
                    break
        acc.count('consumer_cases')
    for p, kind, detail in con.drain():
        if p == 'C11':
            acc.violation('contract:' + kind, detail, {'contract': kind})
    acc.count('contract_evals_compare', con.evals.get('value_compare', 0))
    acc.sample({'consumers': ['systemCompare', '== != < <= > >=', 'arraySort', 'mathMin', 'mathMax', 'arrayIndexOf', 'arrayLastIndexOf', 'dataSort']}, limit=1)


def run_shard(spec, acc):
    api = _api()
    if spec['part'] == 'pairs':
        run_pairs(acc, api)
    elif spec['part'] == 'triples':
        run_triples(spec, acc, api)
    elif spec['part'] == 'dst':
        run_dst(spec, acc, api)
    else:
        run_consumers(spec, acc, api)


def replay(spec, acc):
    api = _api()
    _, _, value_compare = api
    case = spec['case']
    if 'a' in case and 'b' in case and 'xs' not in case:
        a, b = refval.dec(case['a']), refval.dec(case['b'])
        acc.case(json.dumps(case), True)
        c, d, r = value_compare(a, b), value_compare(b, a), rcmp(a, b)
        if c != -d or c != r:
            acc.violation('pair', f'cmp={c} back={d} ref={r}', case)
    else:
        acc.note_inconclusive('replay by re-running: ./check C11 quick')
