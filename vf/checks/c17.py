"""C17 - includes resolve relative to the including file and run in global scope (fault enumeration over fetch faults).
Oracle: RefVM + RefResolve over the same virtual file system; monitors: FetchRecorder (ordered resolved URLs), log recorder."""
import copy
import functools
import os
import random
import re

from .. import core, refval
from ..monitors import VirtualFS
from ..refeval import RefRuntimeError
from ..refvm import IncludeParseError, RefVM, norm_url, resolve

ROOTS = ['https://host.example/a/b/main.bare', '/home/u/proj/main.bare', 'proj/main.bare', 'main.bare', 'https://host.example/main.bare', None,
         'vfs://store/a/b/main.bare', 'app:/pkg/scripts/main.bare', 'gs://bucket/main.bare', 'file:///srv/x/main.bare', 'http://h.example/a/main.bare?v=1']
SYS_PREFIXES = ['/sys/prefix/', 'sys/', 'https://cdn.example/lib/', 'lib/sys/', '/sys/prefix/', 'mem://lib/', 'zip:/bundle/lib/', '/opt/sysdir/index', 'https://cdn.example/v1/index.bare', None, None]  # None: no system prefix configured - a system include resolves like a plain one


def plan(tier, seed):
    n = 150 if tier == 'quick' else 6000
    return [{'part': 'trees', 'n': n, 'shard': sh, 'timeout': 3000} for sh in range(16)] + [{'part': 'cli', 'n': 150 if tier == 'quick' else 3000, 'shard': 0}]


def meta(tier):
    return {
        'level': 'fault_enumeration',
        'rule': ('seeded include trees to depth 4 and fan-out 3 over a virtual file system with nested directories; roots: URL with and '
                 'without directories (http, https, file and application-defined schemes such as vfs:// app:/ gs://), absolute path, relative path, bare file name, and no root URL function; references: same '
                 'directory, sub-directory, ../, absolute URL/path, system includes against a configured absolute / relative / URL prefix; includes wrapped in a function of the root file (global scope); adjacent includes '
                 '(merged statement), statements before/between/after, early return inside an included file, empty / blank / comment-only included files, globals and functions '
                 'defined by includes and used by the includer. For every tree the fault-free run and, for EVERY fetch position k, the '
                 'runs where fetch k returns nothing / raises / returns a syntactically broken text are compared with RefVM on result '
                 'or error (type, resolved location), fetch sequence, log and globals. The command-line interface is driven with sequences of script files (relative and absolute paths) and -c code over real files in a scratch directory. Non-trivial: the tree performs >= 2 fetches; '
                 'distinct = distinct (files, root, fault).'),
        'exhaustive': False,
        'extra': {'exhaustive_part': 'every fetch position x 3 fault kinds per tree'},
        'assumptions': ['include statements at the top level of a file, or inside a function that is defined and called in that same file (where dynamic and lexical base resolution coincide); system includes with a configured prefix (absolute path, relative path or URL; ending in "/" or naming a file whose directory is meant), naming relative or absolute locations',
                        'included texts are turned into models with the real parse_script on the reference side too'],
    }


def _api():
    import bare_script
    from bare_script import url_file_relative
    from bare_script.library import SCRIPT_FUNCTIONS
    from bare_script.parser import BareScriptParserError
    from bare_script.runtime import BareScriptRuntimeError
    return bare_script, SCRIPT_FUNCTIONS, BareScriptRuntimeError, BareScriptParserError, url_file_relative


def join_dir(root, rel):
    """Location of a file referenced as `rel` from the file at `root` (generator-side bookkeeping, normalised)."""
    if root is None:
        return rel
    return root[:root.rfind('/') + 1] + rel


def build(rnd, loc, depth, files, counter, prefix):
    """Create the file at location loc (what the includer's reference resolves to); returns nothing."""
    me = counter[0]
    counter[0] += 1
    lines = [f"systemLog('enter {me}')", f"g{me} = {me}"]
    if rnd.random() < 0.5:
        # control flow around includes, in includer and included text alike (every text numbers its generated labels from 0):
        # an include in a branch that is not taken is never fetched, and loops in one text do not disturb jumps in another
        blocks = [f"if cnt < 0:\n    include 'never-taken-{me}.bare'\nelse:\n    systemLog('else {me}')\nendif",
                  f"jx{me} = 0\nwhile jx{me} < 2:\n    jx{me} = jx{me} + 1\n    if jx{me} == 1:\n        continue\n    endif\n    systemLog('loop {me} ' + jx{me})\nendwhile",
                  f"for fv{me} in arrayNew(1, 2):\n    if fv{me} > 1:\n        break\n    endif\nendfor",
                  f"if cnt >= 0:\n    systemLog('then {me}')\nendif"]
        rnd.shuffle(blocks)
        # (the same generated label names sit at DIFFERENT statement indexes in different texts)
        lines += [f"pad{me}x{q} = {q}" for q in range(rnd.randint(0, 4))] + blocks[:rnd.randint(1, 4)]
    nkids = rnd.randint(0, 3) if depth < 4 else 0
    is_url = loc is not None and re.match(r'^[a-z]+:', loc)
    for k in range(nkids):
        style = rnd.choice(['rel', 'sub', 'up', 'abs', 'sys', 'rel', 'sub', 'sysabs'])
        name = f'f{counter[0]}.bare'
        if rnd.random() < 0.12:
            # file and directory names with blanks, non-ASCII letters, percent signs: a location is passed on character for character
            name = rnd.choice([f'my file {counter[0]}.bare', f'módulo{counter[0]}.bare', f'100%{counter[0]}.bare', f'a+b={counter[0]}.bare', f'x#y{counter[0]}.bare'])
        if style == 'rel':
            ref, child = name, join_dir(loc, name)
        elif style == 'sub':
            ref = f'd{counter[0]}/{name}'
            child = join_dir(loc, ref)
        elif style == 'up':
            ref = '../' + name
            child = join_dir(loc, ref)
        elif style == 'abs':
            ref = f'https://other.example/x{counter[0]}/{name}' if (is_url or rnd.random() < 0.3) else f'/abs{counter[0]}/{name}'
            if rnd.random() < 0.2:
                # an absolute URL is a scheme and a colon - with or without slashes after it
                ref = rnd.choice([f'file:/srv/shared{counter[0]}/{name}', f'vfs:pkg{counter[0]}/{name}', f'mem:{name}', f'file:///opt/x{counter[0]}/{name}'])
            child = ref
        elif style == 'sysabs':
            # a system include that names an absolute URL / absolute path is fetched from exactly there (the prefix is for relative names)
            ref = f'https://sys.example/y{counter[0]}/{name}' if rnd.random() < 0.5 else f'/sysabs{counter[0]}/{name}'
            child = ref
        else:
            ref = 's/' + name
            child = resolve(prefix, ref) if prefix is not None else join_dir(loc, ref)  # against the prefix like against a file: a prefix without a trailing "/" names a sibling
        inc_line = f'include <{ref}>' if style in ('sys', 'sysabs') else f"include '{ref}'"
        if rnd.random() < (0.25 if depth == 0 else 0.3):
            # an include statement inside a function that is defined and called in this same file (the root or an INCLUDED file: the
            # path resolves against the file that contains the statement): it still runs in GLOBAL
            # scope (the included file logs the global cnt, not the parameter of the same name)
            lines.append(f"function ld{counter[0]}(cnt, g0):\n    {inc_line}\n    return cnt\nendfunction")
            lines.append(f"systemLog('ld ' + ld{counter[0]}(77, 'shadow'))")
        else:
            lines.append(inc_line)
            if depth >= 1 and rnd.random() < 0.12:
                lines.append(inc_line)  # the same file named twice in a row: two include lines, two fetches, two runs
        if rnd.random() < 0.1:
            continue  # missing file: never created
        build(rnd, child, depth + 1, files, counter, prefix)
        x = rnd.random()
        if x < 0.4:
            lines.append(f"systemLog('mid {me} {k} ' + fn{counter[0] - 1 if False else me}x)") if False else lines.append(f"systemLog('mid {me} {k}')")
        elif x < 0.6:
            lines.append(f"cnt = cnt + 1")
    if depth > 0 and nkids == 0 and loc is not None and rnd.random() < 0.25:
        # a file that includes ITSELF a bounded number of times (a counter in a global ends the recursion), or its includer once more:
        # every one of these include statements fetches and runs the file again
        own = loc.rsplit('/', 1)[-1]
        lines.append(f"rc{me} = if(rc{me} == null, 0, rc{me}) + 1")
        lines.append(f"if rc{me} < {rnd.randint(2, 3)}:\n    include '{own}'\nendif")
        lines.append(f"systemLog('self {me} ' + rc{me})")
    lines.append(f"function fn{me}(x):\n    return 'f{me}:' + x\nendfunction")
    if rnd.random() < 0.3:
        lines.append(f"systemLog('pre-return {me}')")
        lines.append('return 5')
        lines.append(f"systemLog('unreachable {me}')")
    lines.append(f"systemLog('leave {me} ' + cnt)")
    key = norm_url(loc) if loc is not None else None
    files[key] = '\n'.join(lines)
    if depth > 0 and nkids == 0 and rnd.random() < 0.15:
        # a file that exists but has nothing in it (or only blanks / a comment): fetched, executed, the includer continues
        files[key] = rnd.choice(['', '', '\n', '   ', '# nothing here'])


def make_tree(rnd):
    root = rnd.choice(ROOTS)
    prefix = rnd.choice(SYS_PREFIXES)
    files = {}
    main_loc = root if root is not None else 'main.bare'
    build(rnd, main_loc if root is not None else None, 0, files, [0], prefix)
    main_key = norm_url(root) if root is not None else None
    main = files.pop(main_key)
    if root is None:
        # children of a root without a location were keyed by their bare references
        pass
    # the includer uses what the includes defined (global scope)
    main += "\nsystemLog('defined ' + jsonStringify(arrayNew(g0, g1, g2, g3)))\nif fn1:\n    systemLog(fn1('z'))\nendif\nsystemLog('done')"
    return root, main, files, prefix


def status_of(exc, rt_err, p_err):
    """Kind of the error and the location it names (first quoted text of the message; the wording is not pinned)."""
    first_line = str(exc).split('\n')[0]
    m = re.search(r'"([^"]*)"', first_line)
    return ('parse' if isinstance(exc, p_err) else 'rt', norm_url(m.group(1)) if m else str(exc))


def user(g, lib):
    return {k: refval.canon(v) for k, v in g.items() if k not in lib}


def run_real(model, root, files, faults, api, prefix, debug=False, no_fetch=None):
    bare_script, lib, rt_err, p_err, url_file_relative = api
    fs = VirtualFS(files, faults=faults, norm=norm_url)
    logs = []
    g = {'cnt': 0}
    o = {'globals': g, 'logFn': logs.append, 'fetchFn': fs, 'systemPrefix': prefix, 'maxStatements': 100000}
    if no_fetch == 'absent':
        del o['fetchFn']
    elif no_fetch == 'none':
        o['fetchFn'] = None
    if debug:
        o['debug'] = True
    if root is not None:
        o['urlFn'] = functools.partial(url_file_relative, root)
    try:
        with core.alarm(20):
            r = ('ok', refval.canon(bare_script.execute_script(model, o)))
    except core.CaseTimeout:
        return None
    except (rt_err, p_err) as exc:
        r = status_of(exc, rt_err, p_err)
    except Exception as exc:  # pylint: disable=broad-except
        r = ('host-exception', f'{type(exc).__name__}: {exc}')
    return {'r': r, 'fetches': [norm_url(u) for u in fs.calls], 'logs': logs, 'globals': user(g, lib)}


def run_ref(model, root, files, faults, api, prefix, no_fetch=False):
    bare_script, lib, rt_err, p_err, _ = api
    fs = VirtualFS(files, faults=faults, norm=norm_url)
    g = {'cnt': 0}
    vm = RefVM(g, lib, fetch=None if no_fetch else (lambda url: fs({'url': url})), base=root, system_prefix=prefix, parse=bare_script.parse_script, fuel=100000)
    try:
        r = ('ok', refval.canon(vm.run(model)))
    except IncludeParseError as exc:
        r = ('parse', norm_url(exc.url))
    except RefRuntimeError as exc:
        m = re.search(r'Include of "(.*)" failed', str(exc))
        r = ('rt', norm_url(m.group(1)) if m else str(exc))
    return {'r': r, 'fetches': [norm_url(u) for u in vm.fetches], 'logs': vm.logs, 'globals': user(g, lib)}


def check_tree(root, main, files, acc, api, prefix, only_fault=None):
    bare_script = api[0]
    model = bare_script.parse_script(main)
    base_case = {'root': root, 'main': main, 'files': {k: v for k, v in files.items()}, 'prefix': prefix}
    # (the reference executes the models the real parser returns: first make sure every include LINE of every text is in its model -
    # also a line that names the same file as the line before it)
    def count_includes(stmts):
        return sum(len(st['include']['includes']) if 'include' in st else (count_includes(st['function']['statements']) if 'function' in st else 0) for st in stmts)
    for fname, ftext in [('<main>', main)] + sorted((str(k), v) for k, v in files.items()):
        want_lines = len(re.findall(r'(?m)^[ \t]*include[ \t]', ftext))
        try:
            got_lines = count_includes(bare_script.parse_script(ftext)['statements'])
        except Exception:  # pylint: disable=broad-except
            continue
        if got_lines != want_lines:
            acc.violation('include-line-not-in-the-model', f'{fname}: {want_lines} include lines, {got_lines} includes in the parsed model\n{ftext}', {'root': root, 'main': main, 'files': dict(files), 'prefix': prefix, 'fault': 'none'})
            return
    ref0 = run_ref(model, root, files, {}, api, prefix)
    nfetch = len(ref0['fetches'])
    plans = [({}, 'none')]
    for k in range(nfetch):
        for kind in ('none', 'raise', 'broken') + (('raise-rt', 'raise-bare') if (k + nfetch) % 3 == 0 else ()):
            plans.append(({k: kind}, f'{kind}@{k}'))
    if only_fault is not None:
        plans = [p for p in plans if p[1] == only_fault] or plans[:1]
    if only_fault is None:
        # a host without a fetch function (key absent, or None): the first include fails, and the error names the RESOLVED location
        ref_nf = run_ref(model, root, files, {}, api, prefix, no_fetch=True)
        for how in ('absent', 'none'):
            real_nf = run_real(model, root, files, {}, api, prefix, no_fetch=how)
            acc.count('runs_without_fetch_function')
            if real_nf is not None:
                real_nf['fetches'] = []
                bad = [k for k in ('r', 'logs', 'globals') if real_nf[k] != ref_nf[k]]
                if bad:
                    acc.violation('include-without-fetch-function:' + ','.join(bad), f'fetchFn {how}, root={root!r}: ' + '; '.join(f'{k}: real={real_nf[k]!r:.300} ref={ref_nf[k]!r:.300}' for k in bad)
                                  + f'\nmain:\n{main}', dict(base_case, fault='no-fetch-' + how))
                    return
    if only_fault in (None, 'explicit-false') and nfetch >= 1:
        # a model built by a program may spell the optional system flag out as false: a plain include all the same
        import copy
        explicit = copy.deepcopy(model)

        def spell_out(stmts):
            for st in stmts:
                if 'include' in st:
                    for inc in st['include']['includes']:
                        inc.setdefault('system', False)
                elif 'function' in st:
                    spell_out(st['function']['statements'])
        spell_out(explicit['statements'])
        real_x = run_real(explicit, root, files, {}, api, prefix)
        acc.count('explicit_false_system_flag_runs')
        if real_x is not None:
            bad = [k for k in ('r', 'fetches', 'logs', 'globals') if real_x[k] != ref0[k]]
            if bad:
                acc.violation('include-run-differs:' + ','.join(bad), 'includes with an explicit "system": false: ' + '; '.join(f'{k}: real={real_x[k]!r:.300} ref={ref0[k]!r:.300}' for k in bad)
                              + f'\nmain:\n{main}', dict(base_case, fault='explicit-false'))
                return
    for faults, label in plans:
        ref = ref0 if not faults else run_ref(model, root, files, faults, api, prefix)
        real = run_real(model, root, files, faults, api, prefix)
        if real is None:
            acc.timeouts += 1
            continue
        acc.case((repr(sorted(files.items())), root, label), nfetch >= 2)
        acc.count('fetch_calls_observed', len(real['fetches']))
        acc.count('runs')
        acc.cover('outcomes', real['r'][0])
        acc.cover('fault_kinds', label.split('@')[0] if faults else 'fault-free')
        if label == 'none' or sum(map(ord, label)) % 5 == 0:
            # debug mode lints every included script and reports through logFn; it changes nothing else
            dbg = run_real(model, root, files, faults, api, prefix, debug=True)
            if dbg is not None:
                dbg['logs'] = [l for l in dbg['logs'] if not l.startswith('BareScript:') and not l.startswith('    ')]
                acc.count('debug_mode_runs')
                diff = [k for k in ('r', 'fetches', 'logs', 'globals') if dbg[k] != real[k]]
                if diff:
                    acc.violation('debug-mode-changes-include-run:' + ','.join(diff), f'fault={label} root={root!r}: ' + '; '.join(f'{k}: debug={dbg[k]!r:.300} plain={real[k]!r:.300}' for k in diff)
                                  + f'\nmain:\n{main}', dict(base_case, fault=label))
                    return
        bad = [k for k in ('r', 'fetches', 'logs', 'globals') if real[k] != ref[k]]
        if bad:
            acc.violation('include-run-differs:' + ','.join(bad), f'fault={label} root={root!r}: ' + '; '.join(f'{k}: real={real[k]!r:.300} ref={ref[k]!r:.300}' for k in bad)
                          + f'\nmain:\n{main}\nfiles={sorted(files)!r:.600}', dict(base_case, fault=label))
            return
    if len(acc.samples) < 2 and nfetch >= 3:
        acc.sample({'root': root, 'main': main.split('\n')[:12], 'system_prefix': prefix, 'files': sorted(k for k in files if k is not None)[:8], 'fetch_sequence': ref0['fetches'][:8], 'fault_runs': len(plans) - 1})


def run_cli(spec, acc):
    """The command-line interface runs a SEQUENCE of scripts (files and -c code, one shared globals object): includes of a file
    script resolve against that file, includes of inline code against the working directory - whatever ran before -, and system
    includes come from the package. Real files in a scratch directory; the log is what the CLI prints."""
    import contextlib
    import io
    import shutil
    from bare_script import bare as cli
    root = os.path.join(core.SCRATCH, f'c17-cli-{os.getpid()}')
    shutil.rmtree(root, ignore_errors=True)
    layout = {'lib.bare': "systemLog('lib in cwd')", 'd1/lib.bare': "systemLog('lib in d1')", 'd2/lib.bare': "systemLog('lib in d2')", 'd1/sub/lib.bare': "systemLog('lib in d1/sub')",
              'd1/a.bare': "systemLog('a starts')\ninclude 'lib.bare'\ninclude 'sub/deep.bare'", 'd1/sub/deep.bare': "include 'lib.bare'\nsystemLog('deep done')",
              'd2/b.bare': "include 'lib.bare'\ninclude '../lib.bare'\nsystemLog('b done')", 'c.bare': "include 'd2/lib.bare'\nsystemLog('c done')"}
    want = {'d1/a.bare': ['a starts', 'lib in d1', 'lib in d1/sub', 'deep done'], 'd2/b.bare': ['lib in d2', 'lib in cwd', 'b done'], 'c.bare': ['lib in d2', 'c done']}
    codes = {"include 'lib.bare'": ['lib in cwd'], "include 'd1/lib.bare'\nsystemLog('inline done')": ['lib in d1', 'inline done'],
             "include <diff.bare>\nsystemLog('blocks ' + arrayLength(diffLines('a', 'b')))": ['blocks 2']}
    for rel, text in layout.items():
        path = os.path.join(root, rel)
        os.makedirs(os.path.dirname(path), exist_ok=True)
        with open(path, 'w', encoding='utf-8') as fh:
            fh.write(text)
    rnd = random.Random(spec['seed'] * 7919 + 149)
    cwd = os.getcwd()
    try:
        os.chdir(root)
        for i in range(spec['n']):
            # argparse takes the file arguments as ONE contiguous group; -c options may stand before and after it
            seq = [('code', rnd.choice(sorted(codes))) for _ in range(rnd.randint(0, 2))] + [('file', rnd.choice(sorted(want))) for _ in range(rnd.randint(0, 3))] + \
                [('code', rnd.choice(sorted(codes))) for _ in range(rnd.randint(0, 2))]
            if not seq:
                seq = [('file', 'c.bare')]
            argv, expected = [], []
            for kind, v in seq:
                if kind == 'file':
                    argv.append(v if rnd.random() < 0.7 else os.path.join(root, v))
                    expected += want[v]
                else:
                    argv += ['-c', v]
                    expected += codes[v]
            out = io.StringIO()
            status = None
            try:
                with contextlib.redirect_stdout(out):
                    cli.main(argv)
            except SystemExit as exc:
                status = exc.code
            lines = [l for l in out.getvalue().split('\n') if l]
            acc.case(('cli', json_dumps(argv)), len(seq) >= 2)
            acc.count('cli_runs')
            if lines != expected or status != 0:
                acc.violation('cli-include-resolution', f'bare {argv!r} printed {lines!r:.400} (exit {status}), expected {expected!r:.400}', {'cli_argv': [a.replace(root, '<root>') for a in argv]})
                break
    finally:
        os.chdir(cwd)
        shutil.rmtree(root, ignore_errors=True)
    acc.sample({'cli_example': ['d1/a.bare', '-c', "include 'lib.bare'"], 'expected_output': want['d1/a.bare'] + ['lib in cwd']}, limit=1)


def json_dumps(x):
    import json
    return json.dumps(x)


def run_shard(spec, acc):
    if spec.get('part') == 'cli':
        run_cli(spec, acc)
        return
    api = _api()
    base = spec['seed'] * 1000003 + spec['shard'] * 7919 + 101
    for i in range(spec['n']):
        rnd = random.Random(base + i)
        root, main, files, prefix = make_tree(rnd)
        acc.cover('roots', repr(root))
        acc.cover('system_prefixes', repr(prefix))
        check_tree(root, main, files, acc, api, prefix)
    if acc.counters.get('fetch_calls_observed', 0) == 0:
        acc.note_inconclusive('no fetch call was observed')


def replay(spec, acc):
    api = _api()
    case = spec['case']
    if 'main' not in case:
        acc.note_inconclusive('finding-level replay entry')
        return
    files = {(None if k == 'null' else k): v for k, v in case['files'].items()}
    check_tree(case['root'], case['main'], files, acc, api, case.get('prefix', '/sys/prefix/'), only_fault=case.get('fault'))
