"""C09 - the statement budget is exact, complete and monotone (fault enumeration over every cut point L).
Oracle: RefVM with one global statement clock; monitors: WatchedOptions monotone-counter invariant,
log recorder, virtual file system; metamorphic prefix relation on the real runs alone."""
import copy
import json
import random

from .. import core, gen_prog, refval
from ..monitors import VirtualFS, WatchedOptions, counter_invariant
from ..refast import pp
from ..refeval import Domain, RefRuntimeError, Unspecified
from ..refvm import RefVM, norm_url


def plan(tier, seed):
    n, nsh = (1600, 16) if tier == 'quick' else (24000, 16)
    return [{'part': 'programs', 'n': n // nsh, 'shard': sh, 'timeout': 3000} for sh in range(nsh)]


def meta(tier):
    return {
        'level': 'fault_enumeration',
        'rule': ('seeded programs of five families - structured loops/functions, non-terminating loops and recursion, library '
                 'callbacks (arraySort compare function, arrayIndexOf match function, systemPartial, dataFilter / dataCalculatedField '
                 '/ dataJoin with and without a variables object), nested includes from a virtual file system, and mixes - each run '
                 'under EVERY limit L in 1..N+2 and L=0 when the reference run has N <= 80 statements, otherwise 40 sampled L plus '
                 'N-1, N, N+1; each run compared with RefVM(L) on status/message, result, log, final globals and final counter, with '
                 'the counter-write invariant and the prefix relation checked on the real runs. Non-trivial: N >= 3 and at least one '
                 'abort observed; distinct = distinct (program, files, L).'),
        'exhaustive': False,
        'extra': {'exhaustive_part': 'every cut point L of each program with N <= 80'},
        'assumptions': ['callbacks invoked through data functions with a variables object do not write globals and do not read the '
                        'variables keys (the copy of globals made there is outside the property)',
                        'includes at top level of a file, or inside a function of the root file (the failing-include family); recursion depth bounded by L <= 150 for non-terminating programs'],
    }


def _api():
    import bare_script
    from bare_script.library import SCRIPT_FUNCTIONS
    from bare_script.runtime import BareScriptRuntimeError
    return bare_script, SCRIPT_FUNCTIONS, BareScriptRuntimeError


CALLBACK_SNIPPETS = [
    # (needs, text)
    "arr = arrayNew(3, 1, 2, 5, 4)\nfunction cmp(a, b):\n    cc = a - b\n    return cc\nendfunction\narraySort(arr, cmp)\nsystemLog('sorted ' + jsonStringify(arr))",
    "function match(v):\n    systemLog('m ' + v)\n    return v > 2\nendfunction\nixm = arrayIndexOf(arrayNew(1, 2, 3, 4), match)\nsystemLog('ix ' + ixm)",
    "function add3(a, b, c):\n    t1 = a + b\n    t2 = t1 + c\n    return t2\nendfunction\npf = systemPartial(add3, 1, 2)\nsystemLog('pf ' + pf(3))\nsystemLog('pf ' + pf(4))",
    "dd = arrayNew(objectNew('a', 1), objectNew('a', 2), objectNew('a', 3))\nfunction cb(x):\n    qq = x + 1\n    return qq > 2\nendfunction\nr1 = dataFilter(dd, 'cb(a)')\nsystemLog('f ' + arrayLength(r1))",
    "dd = arrayNew(objectNew('a', 1), objectNew('a', 2), objectNew('a', 3))\nfunction cb(x):\n    qq = x + 1\n    return qq > 2\nendfunction\nr1 = dataFilter(dd, 'cb(a) && zz', objectNew('zz', 1))\nsystemLog('fv ' + arrayLength(r1))",
    "dd = arrayNew(objectNew('a', 1), objectNew('a', 2))\nfunction cf(x):\n    yy = x * 2\n    return yy\nendfunction\ndataCalculatedField(dd, 'b', 'cf(a)')\nsystemLog('c ' + jsonStringify(dd))",
    "dd = arrayNew(objectNew('a', 1), objectNew('a', 2))\nfunction cf(x):\n    yy = x * 2\n    return yy\nendfunction\ndataCalculatedField(dd, 'b', 'cf(a) + kk', objectNew('kk', 10))\nsystemLog('cv ' + jsonStringify(dd))",
    "ld = arrayNew(objectNew('k', 1), objectNew('k', 2))\nrd = arrayNew(objectNew('k', 2, 'v', 'x'), objectNew('k', 1, 'v', 'y'))\nfunction kf(x):\n    zq = x + 0\n    return zq\nendfunction\njj = dataJoin(ld, rd, 'kf(k)')\nsystemLog('j ' + arrayLength(jj))",
    "ld = arrayNew(objectNew('k', 1), objectNew('k', 2))\nrd = arrayNew(objectNew('k', 2, 'v', 'x'), objectNew('k', 1, 'v', 'y'))\nfunction kf(x):\n    zq = x + 0\n    return zq\nendfunction\njj = dataJoin(ld, rd, 'kf(k) + off', null, false, objectNew('off', 0))\nsystemLog('jv ' + arrayLength(jj))",
    # functions whose body is a single return statement: direct recursion, callbacks, chains
    "function fact(n):\n    return if(n <= 1, 1, n * fact(n - 1))\nendfunction\nsystemLog('fact ' + fact(8))",
    "function cmp1(a, b):\n    return a - b\nendfunction\nfunction key1(x):\n    return cmp1(x, 2) > 0\nendfunction\narr1 = arrayNew(5, 3, 1, 4, 2)\narraySort(arr1, cmp1)\nsystemLog('s1 ' + jsonStringify(arr1) + arrayIndexOf(arr1, key1))",
    "function one():\n    return two() + 1\nendfunction\nfunction two():\n    return three() + 1\nendfunction\nfunction three():\n    return 3\nendfunction\nsystemLog('chain ' + one())\nsystemLog('chain ' + one())",
    # empty / one-sided inputs of the data functions (callbacks on the other side still count)
    "le = arrayNew()\nrd = arrayNew(objectNew('k', 2), objectNew('k', 1))\nfunction kf(x):\n    zq = x + 0\n    return zq\nendfunction\njj = dataJoin(le, rd, 'k', 'kf(k) + off', false, objectNew('off', 0))\nsystemLog('je ' + arrayLength(jj))",
    "ld = arrayNew(objectNew('k', 1))\nre = arrayNew()\nfunction kf(x):\n    zq = x + 0\n    return zq\nendfunction\njj = dataJoin(ld, re, 'kf(k) + off', null, true, objectNew('off', 0))\nsystemLog('jr ' + arrayLength(jj))",
    "de = arrayNew()\nfunction cb(x):\n    return x\nendfunction\nr1 = dataFilter(de, 'cb(a)', objectNew('zz', 1))\ndataCalculatedField(de, 'b', 'cb(a)', objectNew('zz', 1))\nsystemLog('fe ' + arrayLength(r1))",
    # data functions that FAIL after their row expression called back into the script (a row that is not an object, a failing second
    # operand): the statements of the callbacks were executed and count, the failed call yields null, the script goes on
    "function cw(x):\n    w1 = x + 1\n    w2 = w1 + 1\n    return w2\nendfunction\nfor rep in arrayNew(1, 2, 3):\n    rr = dataCalculatedField(arrayNew(1, 2), 'ff', 'cw(1) + vv', objectNew('vv', 1))\n    systemLog('bad rows ' + jsonStringify(rr))\nendfor",
    "function cw(x):\n    w1 = x + 1\n    w2 = w1 + 1\n    return w2\nendfunction\nfor rep in arrayNew(1, 2, 3):\n    rr = dataFilter(arrayNew(7), 'cw(1) && aa', objectNew('vv', 1))\n    systemLog('bad filter ' + jsonStringify(rr))\nendfor",
    "function cw(x):\n    w1 = x + 1\n    w2 = w1 + 1\n    return w2\nendfunction\nfor rep in arrayNew(1, 2):\n    rr = dataJoin(arrayNew(objectNew('k', 1), 5), arrayNew(objectNew('k', 1)), 'cw(k) + vv', null, false, objectNew('vv', 0))\n    systemLog('bad join ' + jsonStringify(rr))\nendfor",
    "function cw(x):\n    w1 = x + 1\n    w2 = w1 + 1\n    return w2\nendfunction\nfor rep in arrayNew(1, 2, 3):\n    rr = dataCalculatedField(arrayNew(objectNew('a', 1), 2), 'ff', 'cw(a)', objectNew('vv', 1))\n    systemLog('second row bad ' + jsonStringify(rr))\nendfor",
]

NONTERM_SNIPPETS = [
    "function rec1(n):\n    return rec1(n + 1)\nendfunction\nrec1(0)",
    "function ping(n):\n    return pong(n + 1)\nendfunction\nfunction pong(n):\n    return ping(n + 1)\nendfunction\nping(0)",
    "ii = 0\nwhile true:\n    ii = ii + 1\n    systemLog('i ' + ii)\nendwhile",
    "function rec(n):\n    systemLog('r ' + n)\n    return rec(n + 1)\nendfunction\nrec(0)",
    "lbl:\nkk = kk + 1\njump lbl",
    "function spin():\n    while 1:\n        ss = 1\n    endwhile\nendfunction\narr2 = arrayNew(2, 1)\narraySort(arr2, spin)",
    "dd2 = arrayNew(objectNew('a', 1))\nfunction loopcb(x):\n    while true:\n        x = x + 1\n    endwhile\nendfunction\ndataFilter(dd2, 'loopcb(a)', objectNew('zz', 1))",
]


def small_prog(rnd, depth=2):
    gen = gen_prog.ProgGen(rnd, maxdepth=depth, probes=False, p_while_continue=0.0, typed=True)
    prog = gen_prog.fix_while_continue(gen.program(), False)
    return '\n'.join(pp(prog)), gen.vars


def make_case(rnd):
    """Returns (main_text, files, family, base)."""
    fam = rnd.choice(['structured', 'nonterm', 'callbacks', 'includes', 'mix', 'callbacks', 'includes', 'failing-include-in-function'])
    files = {}
    lines = []
    base = rnd.choice(['https://host.example/a/b/main.bare', '/home/u/proj/main.bare', 'proj/main.bare'])
    init_vars = ['va', 'vb', 'vc', 'vd']
    if fam in ('structured', 'mix'):
        t, _ = small_prog(rnd, rnd.choice([1, 2, 3]))
        lines.append(t)
    if fam in ('callbacks', 'mix'):
        for sn in rnd.sample(CALLBACK_SNIPPETS, rnd.randint(1, 3)):
            lines.append(sn)
    if fam in ('includes', 'mix'):
        ninc = rnd.randint(1, 3)
        for k in range(ninc):
            name = f'lib{k}.bare'
            sub = rnd.random() < 0.5
            body, _ = small_prog(rnd, 1)
            inner = []
            if sub and k + 1 < ninc + 1:
                inner_name = f'sub/inner{k}.bare'
                ib, _ = small_prog(rnd, 1)
                files[norm_url(base[:base.rfind('/') + 1] + 'inc/' + inner_name)] = ib + f"\nsystemLog('inner {k}')"
                inner.append(f"include '{inner_name}'")
            text = '\n'.join(inner + [f"function incf{k}(x):\n    iy = x + {k}\n    return iy\nendfunction",
                                      f"systemLog('inc {k} ' + incf{k}(1))", body] +
                             # (a function of the MAIN script called from inside the included file, when the main script defined it first)
                             (["systemLog('helper ' + if(mainHelper != null, mainHelper(2), 'none'))"] if k == 0 else []))
            files[norm_url(base[:base.rfind('/') + 1] + 'inc/' + name)] = text
            lines.insert(rnd.randint(0, len(lines)), f"include 'inc/{name}'")
        # functions defined by the included files called from the main script afterwards, a main-script function called by the include
        for k in range(ninc):
            lines.append(f"systemLog('main calls ' + incf{k}({k + 3}) + incf{k}(1))")
        if rnd.random() < 0.6:
            lines.insert(0, "function mainHelper(x):\n    mh = x * 2\n    mh = mh + 1\n    return mh\nendfunction")
        lines.append("systemLog('after includes')")
    if fam == 'failing-include-in-function':
        # an include executed INSIDE a script function runs some statements and then fails (its own include names a file with a
        # syntax error, or a missing file): the call evaluates to null and the run goes on - the statements that did start count
        body, _ = small_prog(rnd, 1)
        broken = rnd.choice(["zz = (1 +", "if zz:\n    zz = 1", "function ():", None])
        if broken is not None:
            files[norm_url(base[:base.rfind('/') + 1] + 'inc/sub/bad.bare')] = broken
        files[norm_url(base[:base.rfind('/') + 1] + 'inc/part.bare')] = "iq = 0\nwhile iq < 4:\n    iq = iq + 1\nendwhile\n" + body + "\ninclude 'sub/bad.bare'\nsystemLog('unreachable')"
        lines.append("function ld(k):\n    include 'inc/part.bare'\n    return k\nendfunction")
        lines.append(f"nq = 0\nwhile nq < {rnd.randint(1, 4)}:\n    nq = nq + 1\n    systemLog('ld ' + ld(nq))\nendwhile")
        if rnd.random() < 0.5:
            lines.append("arrq = arrayNew(3, 1, 2)\nfunction cmpq(a, b):\n    ld(0)\n    return a - b\nendfunction\narraySort(arrq, cmpq)")
    if fam == 'nonterm':
        if rnd.random() < 0.5:
            t, _ = small_prog(rnd, 1)
            lines.append(t)
        lines.append('kk = 0')
        lines.append(rnd.choice(NONTERM_SNIPPETS))
    lines.append("systemLog('end')")
    return '\n'.join(lines), files, fam, base


def user(g, lib):
    return {k: refval.canon(v) for k, v in g.items() if k not in lib and not k.startswith('__bareScript')}


def real_run(model, init, limit, files, base, api, options=None, debug=False):
    bare_script, lib, rt_err = api
    from bare_script import url_file_relative
    import functools
    logs = []
    g = copy.deepcopy(init)
    fs = VirtualFS(files, norm=norm_url)
    if options is None:
        options = WatchedOptions()
    if limit is not None and limit % 5 == 2:
        limit = float(limit)  # one number type: a limit given as 7.0 (or the documented default 1e9) is the limit 7
    elif limit is not None and limit > 0 and limit % 7 == 3:
        limit = limit + (0.25 if limit % 2 else 0.5)  # "at most 8.25 statements" is "at most 8 statements"
    options.update({'globals': g, 'logFn': logs.append, 'maxStatements': limit, 'fetchFn': fs,
                    'urlFn': functools.partial(url_file_relative, base)})
    if limit is None:
        options.pop('maxStatements', None)
    if debug:
        options['debug'] = True
    start = len(options.sink)
    try:
        with core.alarm(30):
            r = ('ok', refval.canon(bare_script.execute_script(model, options)))
    except core.CaseTimeout:
        return None
    except rt_err as exc:
        r = ('err', refval.norm_error(str(exc)))
    except Exception as exc:  # pylint: disable=broad-except
        r = ('host-exception', f'{type(exc).__name__}: {exc}')
    return {'r': r, 'logs': logs, 'globals': user(g, lib), 'count': options.get('statementCount'), 'sink': options.sink[start:],
            'fetches': [norm_url(u) for u in fs.calls]}


def ref_run(model, init, limit, files, base, api, bool_num=False, fuel=600):
    bare_script, lib, rt_err = api
    g = copy.deepcopy(init)

    def fetch(url):
        t = files.get(norm_url(url))
        if t is None:
            raise FileNotFoundError(url)
        return t
    vm = RefVM(g, lib, limit=limit, fetch=fetch, base=base, parse=bare_script.parse_script, fuel=fuel, bool_num=bool_num)
    try:
        r = ('ok', refval.canon(vm.run(model)))
    except (Domain, Unspecified):
        return None  # left open by the reference (arithmetic domain error / single-statement resource exhaustion)
    except RefRuntimeError as exc:
        r = ('err', refval.norm_error(str(exc)))
    return {'r': r, 'logs': vm.logs, 'globals': user(g, lib), 'count': vm.clock, 'fetches': [norm_url(u) for u in vm.fetches]}


KEYS = ('r', 'logs', 'globals', 'count', 'fetches')


def check_program(text, files, base, init, acc, api, case):
    bare_script, lib, rt_err = api
    try:
        model = bare_script.parse_script(text)
    except Exception as exc:  # pylint: disable=broad-except
        acc.note_inconclusive(f'generated program did not parse: {exc}'[:300])
        return
    r0 = ref_run(model, init, 0, files, base, api)
    if r0 is None:
        acc.count('skipped_unspecified_by_reference')
        return
    variant = False
    if r0['r'] != ('err', 'ref-fuel'):
        # decide once per program which reference reading applies: if the unlimited real run is explained only by
        # the bool-as-number variant (finding F14), that variant is the oracle for every limit of this program
        probe = real_run(model, init, 0, files, base, api)
        if probe is not None and any(probe[k] != r0[k] for k in KEYS):
            r14 = ref_run(model, init, 0, files, base, api, bool_num=True)
            if r14 is not None and not any(probe[k] != r14[k] for k in KEYS):
                variant = True
                r0 = r14
                acc.known_finding('F14', text.replace('\n', ' | ')[:200])
    terminates = r0['r'] != ('err', 'ref-fuel')
    N = r0['count'] if terminates else None
    if terminates:
        if N <= 80:
            limits = [0] + list(range(1, N + 3))
        else:
            rnd = random.Random(N)
            limits = sorted(set([0, 1, 2, N - 1, N, N + 1, N + 2] + [rnd.randint(1, N) for _ in range(40)]))
    else:
        rnd = random.Random(len(text))
        limits = sorted(set([1, 2, 3, 150] + [rnd.randint(1, 150) for _ in range(30)]))
    unlimited = None
    unlimited_dbg = None
    dbg_mode = core.case_hash(text) % 4 == 0
    aborts = 0
    shared = WatchedOptions()
    for L in limits:
        real = real_run(model, init, L, files, base, api, options=shared if L % 3 == 0 else None)
        if real is None:
            acc.timeouts += 1
            continue
        ref = ref_run(model, init, L, files, base, api, bool_num=variant) if L != 0 else r0
        if ref is None:
            acc.count('skipped_unspecified_by_reference')
            continue
        c = dict(case, limit=L)
        acc.count('runs')
        acc.count('counter_writes_observed', len(real['sink']))
        acc.cover('limit_classes', 'L=0' if L == 0 else ('L<N' if N is None or L < N else ('L=N' if L == N else 'L>N')))
        nontrivial = (N is None or N >= 3)
        acc.case((text, sorted(files.items()), L), nontrivial)
        if real['r'] == ('err', 'EXCEEDED'):
            aborts += 1
            acc.count('aborts_observed')
        # the counter value left in the options dict after an abort is not part of the property (compared only for completed runs)
        keys = KEYS if real['r'][0] == 'ok' else tuple(k for k in KEYS if k != 'count')
        bad = [k for k in keys if real[k] != ref[k]]
        if bad:
            ref14 = ref_run(model, init, L, files, base, api, bool_num=True)
            if not variant and N is None and ref14 is not None and not [k for k in keys if real[k] != ref14[k]]:
                acc.known_finding('F14', text.replace('\n', ' | ')[:200])
            else:
                acc.violation('budget-run-differs:' + ','.join(bad),
                              f'L={L} N={N} differs in {bad}: real={ {k: real[k] for k in bad}!r:.600} ref={ {k: ref[k] for k in bad}!r:.600}\n{text}\nfiles={files!r:.600}', c)
                return
        inv = counter_invariant(real['sink'], L)
        if inv:
            acc.violation('counter-invariant', f'L={L}: {inv}; writes={real["sink"][:60]}\n{text}', c)
            return
        if dbg_mode:
            # debug mode (reports of failing calls, lint of includes) only ADDS log lines: same outcome at every limit, and the
            # limited debug run is a prefix of the unlimited debug run
            rd = real_run(model, init, L, files, base, api, debug=True)
            if rd is not None:
                acc.count('debug_mode_runs')
                if L == 0:
                    unlimited_dbg = rd
                if rd['r'] != real['r'] or rd['globals'] != real['globals'] or (rd['r'][0] == 'ok' and rd['count'] != real['count']):
                    acc.violation('debug-mode-changes-run', f'L={L}: debug {rd["r"]!r:.200} count={rd["count"]} vs plain {real["r"]!r:.200} count={real["count"]}\n{text}', dict(c, debug=True))
                    return
                if unlimited_dbg is not None and L != 0 and rd['logs'] != unlimited_dbg['logs'][:len(rd['logs'])]:
                    acc.violation('limited-run-not-a-prefix', f'debug mode, L={L}: {rd["logs"][-4:]} vs unlimited {unlimited_dbg["logs"][:len(rd["logs"])][-4:]}\n{text}', dict(c, debug=True))
                    return
        if L == 0:
            unlimited = real
        elif unlimited is not None:
            # metamorphic relation on the real runs alone: a limited run is a prefix of the unlimited one
            n = len(real['logs'])
            if real['logs'] != unlimited['logs'][:n]:
                acc.violation('limited-run-not-a-prefix', f'L={L}: {real["logs"][-5:]} vs unlimited {unlimited["logs"][:n][-5:]}\n{text}', c)
                return
            if N is not None and L >= N and any(real[k] != unlimited[k] for k in ('r', 'logs', 'globals', 'count')):
                acc.violation('limit-above-N-changes-run', f'L={L} N={N}\n{text}', c)
                return
    if terminates and unlimited is not None:
        # the default limit (key absent) is far above any generated program: identical to the unlimited run
        dflt = real_run(model, init, None, files, base, api)
        acc.count('default_limit_runs')
        if dflt is not None and any(dflt[k] != unlimited[k] for k in ('r', 'logs', 'globals', 'count')):
            acc.violation('default-limit-changes-run', f'without maxStatements: {dflt["r"]!r:.200} vs unlimited {unlimited["r"]!r:.200}\n{text}', dict(case, limit=None))
            return
    if len(acc.samples) < 2 and N and N >= 10 and files:
        acc.sample({'program': text.split('\n')[:30], 'files': {k: v.split('\n')[:8] for k, v in files.items()}, 'N': N, 'limits_tried': len(limits), 'aborts': aborts})


def run_shard(spec, acc):
    import sys
    sys.setrecursionlimit(20000)
    api = _api()
    from .. import exec_prog
    acc.count('prior_runs_without_globals', exec_prog.prior_runs())
    base = spec['seed'] * 1000003 + spec['shard'] * 7919 + 29
    for i in range(spec['n']):
        rnd = random.Random(base + i)
        text, files, fam, b = make_case(rnd)
        init = {'va': float(rnd.randint(0, 3)), 'vb': float(rnd.randint(0, 3)), 'vc': rnd.random() < 0.5, 'vd': rnd.random() < 0.5}
        acc.cover('families', fam)
        check_program(text, files, b, init, acc, api, {'text': text, 'files': files, 'base': b, 'init': refval.enc(init)})
    if acc.counters.get('aborts_observed', 0) == 0:
        acc.note_inconclusive('no abort was observed')


def replay(spec, acc):
    import sys
    sys.setrecursionlimit(20000)
    api = _api()
    case = spec['case']
    if 'text' not in case:
        acc.note_inconclusive('finding-level replay entry')
        return
    check_program(case['text'], case['files'], case['base'], refval.dec(case['init']), acc, api, case)
