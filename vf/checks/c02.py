"""C02 - expression text parses to the tree the precedence rules dictate.
Oracle: independent precedence-climbing parser (vf/refexpr.py); monitor: parse_expression at the API boundary."""
import itertools
import json
import re
import random

from .. import refexpr
from ..refexpr import OPS, RefSyntax

NAMES = ['aa', 'bb', 'cc', 'dd', 'ee', 'ff']
# identifiers that merely BEGIN with a statement keyword are ordinary names, also at the start of an expression statement
KEYWORDISH = ['returnTotals', 'returned', 'iffy', 'forEach', 'whileTrue', 'breakfast', 'continued', 'jumpy', 'jumpifNot', 'includes', 'functionOf', 'endif2', 'elseWhere', 'elifx', 'asyncFn']
_STARTS_LIKE_EXPR = re.compile(r"""^\s*(?:[A-Za-z_]\w*|\(|!|-|\d|\[|'|")""")
_OTHER_STATEMENT = re.compile(r'^\s*(?:(?:if|elif|while|for|return|jump|jumpif|include|function|async|break|continue|else|endif|endwhile|endfor|endfunction)(?!\w)|[A-Za-z_]\w*\s*(?:=|:\s*$))')  # (a line `name == ...` reads as an assignment on the pinned tree: outside)


def plan(tier, seed):
    specs = []
    if tier == 'quick':
        for sh in range(4):
            specs.append({'part': 'chains', 'maxlen': 3, 'mod': 4, 'rem': sh})
        for sh in range(12):
            specs.append({'part': 'random', 'n': 2500, 'shard': sh})
            specs.append({'part': 'soup', 'n': 2500, 'shard': sh})
    else:
        for sh in range(16):
            specs.append({'part': 'chains', 'maxlen': 4, 'mod': 16, 'rem': sh})
        for sh in range(16):
            specs.append({'part': 'random', 'n': 40000, 'shard': sh})
            specs.append({'part': 'soup', 'n': 40000, 'shard': sh})
    return specs


def meta(tier):
    k = 3 if tier == 'quick' else 4
    return {
        'level': 'exploration',
        'rule': (f'(a) all 14^k operator chains for k=1..{k}, each plain and with every operand position parenthesised-as-pair / '
                 'unary-prefixed / replaced by a call, string or bracket name; (b) random expression trees to depth 8 printed with '
                 'minimal, redundant and random parentheses and random inter-token whitespace; (c) random token strings (>=30% '
                 'ungrammatical) for accept/reject agreement. Non-trivial: the text contains >= 2 binary/unary operators; distinct '
                 '= distinct expression text.'),
        'exhaustive': False,
        'extra': {'exhaustive_part': f'all operator chains up to length {k} ({sum(14 ** i for i in range(1, k + 1))} chains) with operand variants'},
        'assumptions': ['vocabulary avoids lexical quirks outside the property: callee names have >= 2 characters, '
                        'a sign touching the digits of a literal is a plus-signed literal or the unary minus, exponents always signed, ASCII whitespace only, bracket names without trailing blanks'],
    }


def _api():
    from bare_script.parser import BareScriptParserError, parse_expression
    return parse_expression, BareScriptParserError


def nops(text):
    n = 0
    i = 0
    while i < len(text):
        for op in ('**', '<=', '>=', '==', '!=', '&&', '||', '*', '/', '%', '+', '-', '<', '>', '!'):
            if text.startswith(op, i):
                n += 1
                i += len(op) - 1
                break
        i += 1
    return n


def check_text(text, acc, parse_expression, perr, expected=None, kind='chain'):
    """Compare real parse with the reference parse of the same text."""
    try:
        ref = refexpr.parse(text)
        ref_ok = True
    except RefSyntax as exc:
        ref, ref_ok = exc, False
    except RecursionError:
        acc.count('skipped_reference_recursion')
        return
    try:
        real = parse_expression(text)
        real_ok = True
    except perr as exc:
        real, real_ok = exc, False
    except RecursionError:
        acc.count('skipped_real_recursion')
        return
    except Exception as exc:  # pylint: disable=broad-except
        acc.case(text, True)
        acc.violation('non-parser-exception', f'{type(exc).__name__}: {exc} for {text!r}', {'text': text})
        return
    acc.case(text, nops(text) >= 2)
    acc.count('accepted' if real_ok else 'rejected')
    if expected is not None and (not ref_ok or ref != expected):
        # the reference parser disagrees with the generator's own tree: harness defect, never blamed on the repository
        acc.note_inconclusive(f'reference self-check failed on {text!r}')
        return
    if ref_ok and real_ok:
        if real != ref or json.dumps(real, sort_keys=True) != json.dumps(ref, sort_keys=True):
            # (the second test is type-strict: a number leaf is the DOUBLE the text denotes - `7` is 7.0, never the integer 7)
            acc.violation('tree-differs', f'{text!r}: real={json.dumps(real)} ref={json.dumps(ref)}', {'text': text})
    elif ref_ok and not real_ok:
        acc.violation('rejected-wellformed', f'{text!r}: {real.error} col {real.column_number}; reference tree {json.dumps(ref)[:300]}', {'text': text})
    elif real_ok and not ref_ok:
        acc.violation('accepted-illformed', f'{text!r}: real tree {json.dumps(real)[:300]}; reference: {ref}', {'text': text})
    if kind in ('random', 'soup', 'replay-context') and '\n' not in text and '\r' not in text and text.strip() and (len(text) % 3 == 0 or kind == 'replay-context'):
        statement_contexts(text, ref, ref_ok, acc)
    if len(acc.samples) < 3 and kind != 'chain' and ref_ok and real_ok and nops(text) >= 3:
        acc.sample({'text': text, 'tree': real})


def statement_contexts(text, ref, ref_ok, acc):
    """The same expression text inside every statement form that carries an expression: accepted exactly when the expression is
    well formed (no silent cut to a well-formed prefix, no line end invented inside it), and the model holds the same tree."""
    from bare_script.parser import BareScriptParserError, parse_script

    def find_tree(model):
        st = model['statements'][0]
        return st['expr']['expr'] if 'expr' in st else st['return'].get('expr')
    forms = [('assign', 'xx = {}', True), ('return', 'return {}', True), ('if', 'if {}:\nendif', False), ('while', 'while {}:\nendwhile', False),
             ('for', 'for vv in {}:\nendfor', False), ('elif', 'if cc:\nelif {}:\nendif', False), ('jumpif', 'lbl:\njumpif ({}) lbl', False)]
    if ref_ok and _STARTS_LIKE_EXPR.match(text) and not _OTHER_STATEMENT.match(text):
        # the text alone on a line is an expression statement (a line that begins with a keyword, an assignment or a label stays out)
        forms.append(('expression-statement', '{}', True))
    if text.lstrip()[:1] in ('=', ':') and not text.lstrip().startswith('=='):
        return  # `return = 2` is an assignment to the variable "return", `return :` a label: other statements, not this expression
    if ' ' in text and not any(c in text for c in '\'"[]#\\\n\r'):
        # a line continuation is a token boundary like a blank: `1\<newline>2` is the ill-formed `1 2`, never the number 12
        broken = re.sub(r'(?<=\S) (?=\S)', lambda m: '\\\n', text)
        forms += [('assign-continued', 'xx = ' + broken, True), ('return-continued', 'return ' + broken.replace('\\\n', '\\\n    ', 1), True)]
    for name, tmpl, tree in forms:
        src = tmpl.replace('{}', text) if '-continued' not in name else tmpl
        try:
            model = parse_script(src)
            ok = True
        except BareScriptParserError:
            ok = False
        except RecursionError:
            return
        except Exception as exc:  # pylint: disable=broad-except
            acc.violation('non-parser-exception', f'{type(exc).__name__}: {exc} for {src!r}', {'text': text, 'context': name})
            return
        acc.count('statement_context_parses')
        if ok != ref_ok:
            acc.violation('accepted-illformed' if ok else 'rejected-wellformed', f'{name} statement {src!r}: {"accepted" if ok else "rejected"}, the expression {text!r} is {"well" if ref_ok else "ill"}-formed', {'text': text, 'context': name})
            return
        if ok and name == 'expression-statement' and ('expr' not in model['statements'][0] or 'name' in model['statements'][0]['expr']):
            acc.violation('tree-differs', f'the line {src!r} is an expression statement; it was read as {json.dumps(model["statements"][0])[:300]}', {'text': text, 'context': name})
            return
        if ok and tree and find_tree(model) != ref:
            acc.violation('tree-differs', f'{name} statement {src!r}: {json.dumps(find_tree(model))[:300]} vs {json.dumps(ref)[:300]}', {'text': text, 'context': name})
            return


def chain_texts(ops):
    """The plain chain and its operand variants."""
    k = len(ops)
    names = NAMES[:k + 1]

    def join(operands):
        out = [operands[0]]
        for op, x in zip(ops, operands[1:]):
            out += [op, x]
        return ' '.join(out)
    yield join(names)
    for pos in range(k + 1):
        o = list(names)
        o[pos] = '-' + names[pos]
        yield join(o)
        o[pos] = '!' + names[pos]
        yield join(o)
        o[pos] = f"fn({names[pos]}, 1)"
        yield join(o)
        o[pos] = "'s t'" if pos % 2 else '[x y]'
        yield join(o)
        o[pos] = '(' + names[pos] + ')'
        yield join(o)
    # parenthesised adjacent pairs
    for pos in range(k):
        parts = []
        for i, n in enumerate(names):
            if i == pos:
                parts.append('(' + n)
            elif i == pos + 1:
                parts.append(n + ')')
            else:
                parts.append(n)
        yield join(parts)


def rand_tree(rnd, depth, budget):
    x = rnd.random()
    if depth <= 0 or budget[0] <= 0 or x < 0.25:
        budget[0] -= 1
        y = rnd.random()
        if y < 0.35:
            return {'variable': rnd.choice(NAMES + ['true', 'null', 'x1', '_y'] + KEYWORDISH)}
        if y < 0.6:
            return {'number': float(rnd.choice([0, 1, 2, 10, 2.5, 1e21, 1e-7, 123456789, 0.1]))}
        if y < 0.8:
            # any character may stand inside a string literal of an expression text - also a raw line feed, tab or carriage return
            return {'string': ''.join(rnd.choice("ab '\"\\(),\n\t\r#") for _ in range(rnd.randint(0, 4)))}
        return {'variable': rnd.choice(['x y', 'a]b', 'p\\q', 'n.m', '1st', 'a ', 'x y  ', 'tab\t', 'b] '])}
    budget[0] -= 1
    if x < 0.7:
        return {'binary': {'op': rnd.choice(OPS), 'left': rand_tree(rnd, depth - 1, budget), 'right': rand_tree(rnd, depth - 1, budget)}}
    if x < 0.8:
        return {'unary': {'op': rnd.choice('!-'), 'expr': rand_tree(rnd, depth - 1, budget)}}
    if x < 0.9:
        return {'group': rand_tree(rnd, depth - 1, budget)}
    return {'function': {'name': rnd.choice(['fn', 'max', 'arrayNew', 'if'] + (KEYWORDISH if rnd.random() < 0.3 else [])),
                         'args': [rand_tree(rnd, depth - 1, budget) for _ in range(rnd.randint(0, 3))]}}


_WS = ['', ' ', '  ', '\t', ' \t ', '\x0c', ' \x0b']  # (form feed and vertical tab are blanks inside an expression, never line ends)


def print_ws(e, rnd, p=0):
    """Printer with random inter-token whitespace; returns text. Parentheses exactly where with_groups() puts groups."""
    def w():
        return rnd.choice(_WS)

    def need_space(a, b):
        return (a[-1:].isalnum() or a[-1:] == '_') and (b[:1].isalnum() or b[:1] == '_')

    def go(e, p):
        (k, v), = e.items()
        if k == 'number':
            if v < 0:
                return '(0 - ' + refexpr.num_text(-v) + ')'
            return ('+' if rnd.random() < 0.15 else '') + refexpr.num_text(v)
        if k == 'string':
            return refexpr.str_text(v, rnd.choice("'\""))
        if k == 'variable':
            return refexpr.estr(e)
        if k == 'function':
            return v['name'] + w() + '(' + (w() + ',').join(w() + go(a, 0) for a in v['args']) + w() + ')'
        if k == 'group':
            return '(' + w() + go(v, 0) + w() + ')'
        if k == 'unary':
            inner = go(v['expr'], 9)
            return v['op'] + w() + inner
        pr = refexpr.PREC[v['op']]
        s = go(v['left'], pr) + w() + v['op'] + w() + go(v['right'], pr + 1)
        return '(' + s + ')' if pr < p else s
    return go(e, p)


SOUP = OPS + ['(', ')', ',', '!', '-', 'aa', 'bb', 'fn(', 'max(', '1', '2.5', '1e+3', "'s'", '"t"', '[x y]', '(', ')', 'aa', '1',
              '@', '=', '&', '|', '.', ':', '1e5', "'open", '#', '+5', '+2.5', '-3', '+1e+3', '+aa', '+(']


def run_shard(spec, acc):
    parse_expression, perr = _api()
    if spec['part'] == 'chains':
        ix = 0
        for k in range(1, spec['maxlen'] + 1):
            for ops in itertools.product(OPS, repeat=k):
                ix += 1
                if ix % spec['mod'] != spec['rem']:
                    continue
                for a, b in zip(ops, ops[1:]):
                    acc.cover('adjacent_operator_pairs', a + ' ' + b)
                for text in chain_texts(ops):
                    check_text(text, acc, parse_expression, perr)
                acc.count('chains')
    elif spec['part'] == 'random':
        seen = []
        base = spec['seed'] * 1000003 + spec['shard'] * 7919 + 17
        for i in range(spec['n']):
            rnd = random.Random(base + i)
            tree = rand_tree(rnd, rnd.randint(1, 8), [rnd.randint(3, 60)])
            style = rnd.random()
            if style < 0.4:
                text = refexpr.estr(tree)
            elif style < 0.6:
                text = refexpr.estr(tree, sp='')
                if '--' in text or '- -' in text:
                    pass
            else:
                text = print_ws(tree, rnd)
            expected = refexpr.with_groups(tree)
            check_text(text, acc, parse_expression, perr, expected=expected, kind='random')
            acc.count('random_trees')
            if i < 1500:
                seen.append(text)
                # siblings that differ only in blanks inside / outside string literals
                if "'" in text or '"' in text:
                    seen.append(text.replace(' ', '  '))
                    seen.append(text.replace(' ', '\t'))
        if spec['shard'] == 0:
            state_check(seen, acc, parse_expression, perr, spec['seed'])
        if spec['shard'] == 1:
            # string literals written by hand: every body of up to four pieces over backslash, both quotes and letters, in both quote
            # styles - a backslash escapes only a backslash or the delimiting quote; before anything else it is an ordinary character
            # number literals at and beyond the double range: the leaf is the double the text denotes (an overflowing literal is infinite)
            for num in ('1e+308', '1e+309', '1e+400', '9' * 310, '1e-400', '1.7976931348623157e+308', '2 * 1e+999', 'fn(1e+309, 5e-324)', '0 - 1e+309'):
                check_text(num, acc, parse_expression, perr, kind='number-literal')
            pieces = ['a', '\\', "'", '"', 'n', ' ']
            for q in ("'", '"'):
                for k in range(0, 5):
                    for body in itertools.product(pieces, repeat=k):
                        lit = q + ''.join(body) + q
                        if re.search(r'(?<!\\)(?:\\\\)*\\' + q, lit[1:]):
                            # an odd run of backslashes right before a delimiter-like quote (also the closing one) can be read in two
                            # ways by a backtracking lexer (`'a\'` is accepted as the string a-backslash on the pinned tree): left out
                            acc.count('string_literal_texts_ambiguous')
                            continue
                        check_text(lit, acc, parse_expression, perr, kind='string-literal')
                        if k <= 3:
                            check_text('x + ' + lit + ' + y', acc, parse_expression, perr, kind='string-literal')
                        acc.count('string_literal_texts')
    else:
        base = spec['seed'] * 1000003 + spec['shard'] * 7919 + 31
        for i in range(spec['n']):
            rnd = random.Random(base + i)
            if rnd.random() < 0.5:
                # mutate a well-formed text by deleting / inserting / swapping one token
                tree = rand_tree(rnd, rnd.randint(1, 5), [rnd.randint(3, 25)])
                toks = refexpr.estr(tree).replace('(', ' ( ').replace(')', ' ) ').replace(',', ' , ').split(' ')
                toks = [t for t in toks if t]
                m = rnd.random()
                j = rnd.randrange(len(toks))
                if m < 0.35:
                    del toks[j]
                elif m < 0.7:
                    toks.insert(j, rnd.choice(SOUP))
                else:
                    j2 = rnd.randrange(len(toks))
                    toks[j], toks[j2] = toks[j2], toks[j]
                text = ' '.join(toks)
            else:
                text = ' '.join(rnd.choice(SOUP) for _ in range(rnd.randint(1, 9)))
            if "'" in text or '"' in text or '\\' in text or '[' in text:
                # keep string/bracket tokens lexically unambiguous (quote/backslash games are outside the vocabulary)
                if text.count("'") % 2 or text.count('"') % 2 or '\\' in text:
                    acc.count('soup_skipped_lexical')
                    continue
            check_text(text, acc, parse_expression, perr, kind='soup')
            acc.count('soup_texts')


def state_check(texts, acc, parse_expression, perr, seed):
    """No state between calls: a fresh process that parses the same texts in reversed order gives the same trees."""
    from .. import core
    texts = list(dict.fromkeys(texts))[:5000]
    warm = []
    for t in texts:
        try:
            warm.append(['ok', parse_expression(t)])
        except perr as exc:
            warm.append(['err', 'BareScriptParserError', exc.column_number])
        except Exception as exc:  # pylint: disable=broad-except
            warm.append(['err', type(exc).__name__, None])
    cold = core.cold_reversed('parse_expression', texts, seed)
    if cold is None:
        acc.note_inconclusive('cold child process for the state check failed')
        return
    for t, a, b in zip(texts, warm, cold):
        acc.count('cold_vs_warm_comparisons')
        if a != b:
            acc.violation('parse-depends-on-earlier-calls', f'{t!r}: in this process {json.dumps(a)[:300]}, in a fresh process (reversed order) {json.dumps(b)[:300]}', {'text': t})
            return


def replay(spec, acc):
    parse_expression, perr = _api()
    check_text(spec['case']['text'], acc, parse_expression, perr, kind='replay-context' if spec['case'].get('context') else 'replay')
