"""C16 - datetime construction, arithmetic and ISO text are correct in any time zone.
Oracle: RefCalendar (proleptic-Gregorian normalisation with datetime + timedelta) and zoneinfo facts; one subprocess per zone."""
import datetime
import os
import random
import zoneinfo

from .. import refval

# the eight zones of the property's quantifier plus two with NEGATIVE offsets that are not whole hours (-03:30/-02:30 with DST, -09:30)
ZONES = ['UTC', 'America/New_York', 'Europe/London', 'Asia/Kolkata', 'Asia/Kathmandu', 'Australia/Lord_Howe', 'Pacific/Chatham', 'Etc/GMT+12',
         'America/St_Johns', 'Pacific/Marquesas']
TD = datetime.timedelta
DT = datetime.datetime


def plan(tier, seed):
    n = 5000 if tier == 'quick' else 150000
    specs = []
    for z in ZONES:
        specs.append({'part': 'random', 'env': {'TZ': z}, 'n': n, 'shard': ZONES.index(z)})
        specs.append({'part': 'transitions', 'env': {'TZ': z}, 'shard': ZONES.index(z), 'sweep': 180,
                      'step': 3 if tier == 'quick' else 1, 'timeout': 3000})
    specs.append({'part': 'tzswitch', 'env': {'TZ': 'UTC'}, 'shard': 99, 'n': 60 if tier == 'quick' else 2000})
    return specs


def meta(tier):
    return {
        'level': 'exploration',
        'rule': ('per zone in ' + ', '.join(ZONES) + ' (one process each, TZ set before start-up): seeded random datetimeNew component lists '
                 '(years 100-9000, months -30..40, days -10000..10000, time components +-5000, milliseconds +-5e6) against calendar '
                 'arithmetic, the seven getters, (d + n) - d = n for integral n up to +-1e12, parse(format(d)) = d to the millisecond for '
                 'local times that exist with a whole-minute offset; every UTC-offset transition of the zone between 1900 and 2100 with a '
                 'minute-granular sweep around it; month ends, leap days; ISO near-misses must parse to null. Non-trivial: a case with an '
                 'out-of-range component or a time within 3 h of a transition; distinct = distinct (zone, components / instant).'),
        'exhaustive': False,
        'extra': {'zones': ZONES},
        'assumptions': ['zoneinfo (system tz database) is trusted for offsets, gaps and folds', 'sub-millisecond datetimes are not generated'],
    }


def _api():
    from bare_script.library import SCRIPT_FUNCTIONS
    from bare_script.runtime import evaluate_expression
    return SCRIPT_FUNCTIONS, evaluate_expression


def call(api, name, *args):
    """Call through the evaluator's call wrapper (a failing call evaluates to null)."""
    lib, evaluate_expression = api
    g = {f'a{i}': a for i, a in enumerate(args)}
    g[name] = lib[name]
    return evaluate_expression({'function': {'name': name, 'args': [{'variable': f'a{i}'} for i in range(len(args))]}}, {'globals': g}, None, False)


def ref_new(y, mo, d, h=0, mi=0, s=0, ms=0):
    try:
        return DT(y + (mo - 1) // 12, (mo - 1) % 12 + 1, 1) + TD(days=d - 1, hours=h, minutes=mi, seconds=s, milliseconds=ms)
    except (OverflowError, ValueError):
        return None


def exists_whole_minute(d, zi):
    """d (naive local) exists in the zone (not in a gap) and its UTC offset is a whole number of minutes."""
    aware = d.replace(tzinfo=zi)
    off = aware.utcoffset()
    if off is None or (off.days * 86400 + off.seconds) % 60 != 0 or off.microseconds:
        return False
    back = aware.astimezone(datetime.timezone.utc).astimezone(zi).replace(tzinfo=None)
    return back == d


def check_datetime(d, acc, api, zi, zone, why):
    """All per-instant facts for a naive local datetime d (millisecond precision)."""
    case = {'zone': zone, 'dt': d.isoformat()}
    getters = {'datetimeYear': d.year, 'datetimeMonth': d.month, 'datetimeDay': d.day, 'datetimeHour': d.hour,
               'datetimeMinute': d.minute, 'datetimeSecond': d.second, 'datetimeMillisecond': d.microsecond // 1000}
    for fn, want in getters.items():
        got = call(api, fn, d)
        if got != want or isinstance(got, bool):
            acc.violation('getter', f'{zone}: {fn}({d!r}) = {got!r}, expected {want}', case)
            return
    acc.count('getter_checks', 7)
    if not (DT(2, 1, 1) < d < DT(9998, 12, 30)):
        return
    if exists_whole_minute(d, zi):
        text = call(api, 'datetimeISOFormat', d)
        if not isinstance(text, str):
            acc.violation('format-failed', f'{zone}: datetimeISOFormat({d!r}) = {text!r}', case)
            return
        back = call(api, 'datetimeISOParse', text)
        if back != d:
            acc.violation('iso-round-trip', f'{zone}: {d!r} -> {text!r} -> {back!r} ({why})', case)
            return
        # the text itself: local wall time fields + the zone's offset at that instant
        off = d.replace(tzinfo=zi).utcoffset()
        tot = off.days * 86400 + off.seconds
        want = f'{d.year:04d}-{d.month:02d}-{d.day:02d}T{d.hour:02d}:{d.minute:02d}:{d.second:02d}' + \
            (f'.{d.microsecond // 1000:03d}' if d.microsecond else '') + ('+' if tot >= 0 else '-') + f'{abs(tot) // 3600:02d}:{abs(tot) % 3600 // 60:02d}'
        fold_ambiguous = d.replace(tzinfo=zi, fold=1).utcoffset() != off
        if text != want and not fold_ambiguous:
            acc.violation('iso-text', f'{zone}: {d!r} formatted as {text!r}, expected {want!r}', case)
            return
        dtext = call(api, 'datetimeISOFormat', d, True)
        if dtext != f'{d.year:04d}-{d.month:02d}-{d.day:02d}':
            acc.violation('iso-date-text', f'{zone}: {d!r} date-formatted as {dtext!r}', case)
            return
        acc.count('iso_round_trips')
        # a host-supplied datetime with sub-millisecond digits round-trips "to the millisecond" (truncation)
        us = (d.minute * 61 + d.second * 7 + d.day) % 999 + 1
        d2 = d + TD(microseconds=us)
        if exists_whole_minute(d2.replace(microsecond=0), zi):
            t2 = call(api, 'datetimeISOFormat', d2)
            b2 = call(api, 'datetimeISOParse', t2) if isinstance(t2, str) else None
            if b2 != d2.replace(microsecond=d2.microsecond // 1000 * 1000):
                acc.violation('iso-round-trip-submillisecond', f'{zone}: {d2!r} -> {t2!r} -> {b2!r}', case)
                return
            acc.count('submillisecond_round_trips')
    else:
        acc.count('skipped_nonexistent_or_odd_offset')


def run_random(spec, acc, api):
    zone = spec['env']['TZ']
    zi = zoneinfo.ZoneInfo(zone)
    lib, evaluate_expression = api
    rnd = random.Random(spec['seed'] * 1000003 + spec['shard'] * 7919 + 97)
    for i in range(spec['n']):
        y = rnd.choice([rnd.randint(100, 9000), rnd.randint(1900, 2100), rnd.randint(1900, 2100)])
        mo = rnd.choice([rnd.randint(-30, 40), rnd.randint(1, 12)])
        d = rnd.choice([rnd.randint(-10000, 10000), rnd.randint(1, 28), rnd.randint(28, 32), rnd.randint(-3, 3)])
        comps = [y, mo, d]
        nextra = rnd.randint(0, 4)
        ranges = [5000, 5000, 5000, 5000000]
        for k in range(nextra):
            comps.append(rnd.choice([rnd.randint(-ranges[k], ranges[k]), rnd.randint(0, 59 if k else 23), 0]))
        comps_f = [float(c) for c in comps]
        want = ref_new(*comps)
        got = call(api, 'datetimeNew', *comps_f)
        out_of_range = not (1 <= mo <= 12 and 1 <= d <= 28) or any(c < 0 or c > 23 for c in comps[3:])
        acc.case((zone, tuple(comps)), out_of_range)
        acc.cover('zones', zone)
        case = {'zone': zone, 'components': comps}
        if got != want or (got is not None and not isinstance(got, DT)):
            acc.violation('datetimeNew-normalisation', f'{zone}: datetimeNew{tuple(comps)} = {got!r}, calendar arithmetic gives {want!r}', case)
            continue
        acc.count('datetimeNew_checks')
        if want is None:
            continue
        check_datetime(want, acc, api, zi, zone, 'random components')
        # arithmetic: (d + n) - d == n
        n = rnd.choice([rnd.randint(-10 ** 12, 10 ** 12), rnd.randint(-10 ** 6, 10 ** 6), rnd.randint(-86400000, 86400000), 0, 1, -1])
        try:
            target = want + TD(milliseconds=n)
            ok_range = DT(2, 1, 1) < target < DT(9998, 12, 30)
        except OverflowError:
            ok_range = False
        if ok_range:
            e = {'binary': {'op': '-', 'left': {'group': {'binary': {'op': '+', 'left': {'variable': 'dd'}, 'right': {'variable': 'nn'}}}}, 'right': {'variable': 'dd'}}}
            diff = evaluate_expression(e, {'globals': {'dd': want, 'nn': float(n)}}, None, False)
            plus = evaluate_expression(e['binary']['left'], {'globals': {'dd': want, 'nn': float(n)}}, None, False)
            e2 = {'binary': {'op': '+', 'left': {'variable': 'nn'}, 'right': {'variable': 'dd'}}}
            plus2 = evaluate_expression(e2, {'globals': {'dd': want, 'nn': n}}, None, False)
            if diff != n or plus != target or plus2 != target:
                acc.violation('datetime-arithmetic', f'{zone}: ({want!r} + {n}) - d = {diff!r}; d + n = {plus!r}; n + d = {plus2!r}; expected {target!r}', dict(case, n=n))
                continue
            acc.count('arithmetic_checks')
        if len(acc.samples) < 2 and out_of_range:
            acc.sample({'zone': zone, 'datetimeNew': comps, 'normalised': want.isoformat()})
    # month ends and leap days
    for y in (1900, 2000, 2023, 2024, 2100, 2400):
        for mo in range(1, 13):
            for d in (28, 29, 30, 31, 32, 0, -1):
                want = ref_new(y, mo, d, 23, 59, 59, 999)
                got = call(api, 'datetimeNew', float(y), float(mo), float(d), 23.0, 59.0, 59.0, 999.0)
                acc.case((zone, y, mo, d, 'end'), True)
                if got != want:
                    acc.violation('datetimeNew-normalisation', f'{zone}: month end {y}-{mo}-{d} = {got!r}, expected {want!r}', {'zone': zone, 'components': [y, mo, d, 23, 59, 59, 999]})
                elif want is not None:
                    check_datetime(want, acc, api, zi, zone, 'month end')
    # host-supplied dates and aware datetimes normalise to local time
    for v in (datetime.date(2024, 2, 29), DT(2024, 6, 1, 12, 0, tzinfo=datetime.timezone.utc), DT(2024, 1, 1, 0, 30, tzinfo=datetime.timezone(TD(hours=5, minutes=30)))):
        local = refval.ndt(v) if not (isinstance(v, DT) and v.tzinfo) else v.astimezone(zi).replace(tzinfo=None)
        acc.case((zone, repr(v)), True)
        for fn, want in (('datetimeYear', local.year), ('datetimeMonth', local.month), ('datetimeDay', local.day), ('datetimeHour', local.hour), ('datetimeMinute', local.minute)):
            got = call(api, fn, v)
            if got != want:
                acc.violation('getter-on-host-datetime', f'{zone}: {fn}({v!r}) = {got!r}, expected {want}', {'zone': zone, 'value': repr(v)})
    # ISO near-misses parse to null; valid forms parse to the right local instant
    for t in ['2024-02-30', '2024-13-01', '2024-00-10', '2023-02-29', '2024-01-01T25:00:00Z', '2024-01-01T10:61:00Z', '2024-01-01T10:00:61Z', '2024-01-01T10:00:00',
              '2024-01-01T10:00:00.1234567Z', '2024-1-1', '20240101', '2024-01-01T10:00Z', '2024-01-01 10:00:00Z', '2024-01-01T10:00:00+0100', '2024-01-01T10:00:00+25:00',
              '', 'abc', '2024-01-01T', '2024-01-01Z', '0000-01-01', '2024-01-32T00:00:00Z', '2024-02-30T00:00:00+00:00', '2024-04-31', '2100-02-29', '0000-00-00T00:00:00Z',
              '9999-12-31T23:59:59-14:00', '0001-01-01T00:00:00+14:00',
              # blanks around an otherwise valid text: not the ISO form
              ' 2024-02-29', '2024-02-29 ', '\t2024-02-29', '2024-03-10T12:30:15Z\t', '\u00a02024-01-01', '  2024-03-10T12:30:15+01:00', '2024-02-29\r', '2024-03-10T12:30:15Z x']:
        got = call(api, 'datetimeISOParse', t)
        acc.case((zone, 'near', t), True)
        if got is not None:
            acc.violation('near-miss-parsed', f'{zone}: datetimeISOParse({t!r}) = {got!r}', {'zone': zone, 'text': t})
        # "parses to null instead of failing": the function itself returns null - it does not raise and rely on the call wrapper
        try:
            direct = lib['datetimeISOParse']([t], None)
        except Exception as exc:  # pylint: disable=broad-except
            acc.violation('near-miss-raised', f'{zone}: datetimeISOParse({t!r}) raised {type(exc).__name__}: {exc}', {'zone': zone, 'text': t})
            continue
        acc.count('near_miss_direct_calls')
        if direct is not None:
            acc.violation('near-miss-parsed', f'{zone}: datetimeISOParse({t!r}) = {direct!r} (direct call)', {'zone': zone, 'text': t})
    for t, utc in [('2024-03-10T12:00:00Z', DT(2024, 3, 10, 12)), ('2024-03-10T12:00:00.250+05:30', DT(2024, 3, 10, 6, 30, 0, 250000)), ('1999-12-31T23:59:59.999-11:00', DT(2000, 1, 1, 10, 59, 59, 999000))]:
        want = utc.replace(tzinfo=datetime.timezone.utc).astimezone(zi).replace(tzinfo=None)
        got = call(api, 'datetimeISOParse', t)
        acc.case((zone, 'good', t), True)
        if got != want:
            acc.violation('iso-parse-value', f'{zone}: datetimeISOParse({t!r}) = {got!r}, expected {want!r}', {'zone': zone, 'text': t})
    got = call(api, 'datetimeISOParse', '2024-02-29')
    if got != DT(2024, 2, 29):
        acc.violation('iso-parse-value', f'date text -> {got!r}', {'zone': zone, 'text': '2024-02-29'})


def transitions(zi, y0=1900, y1=2100):
    """UTC instants (to the minute) at which the zone's offset changes."""
    utc = datetime.timezone.utc
    t = DT(y0, 1, 1, tzinfo=utc)
    end = DT(y1, 1, 1, tzinfo=utc)
    step = TD(hours=12)
    prev = t.astimezone(zi).utcoffset()
    out = []
    while t < end:
        nxt = t + step
        off = nxt.astimezone(zi).utcoffset()
        if off != prev:
            lo, hi = t, nxt
            while hi - lo > TD(minutes=1):
                mid = lo + (hi - lo) // 2
                mid = mid.replace(second=0, microsecond=0)
                if mid <= lo:
                    break
                if mid.astimezone(zi).utcoffset() == prev:
                    lo = mid
                else:
                    hi = mid
            out.append(hi)
            prev = off
        t = nxt
    return out


def run_transitions(spec, acc, api):
    zone = spec['env']['TZ']
    zi = zoneinfo.ZoneInfo(zone)
    trs = transitions(zi)
    acc.count('transitions_found', len(trs))
    acc.cover('zones', zone)
    for ix, tr in enumerate(trs):
        local = tr.astimezone(zi).replace(tzinfo=None)
        for m in range(-spec['sweep'], spec['sweep'] + 1, spec['step']):
            d = local + TD(minutes=m)
            acc.case((zone, d.isoformat()), True)
            check_datetime(d.replace(microsecond=(ix * 37 + m) % 1000 * 1000), acc, api, zi, zone, f'{m} min from the transition at {tr.isoformat()}')
    if trs:
        acc.sample({'zone': zone, 'transitions_1900_2100': len(trs), 'first': trs[0].isoformat(), 'last': trs[-1].isoformat(), 'sweep_minutes': spec['sweep']}, limit=1)
    else:
        acc.case((zone, 'no-transitions'), True)
        acc.case((zone, 'no-transitions-2'), True)
        acc.sample({'zone': zone, 'transitions_1900_2100': 0}, limit=1)


def run_tzswitch(spec, acc, api):
    """A host may change the process time zone while it runs (os.environ['TZ'] + time.tzset()): ISO texts that were parsed under one
    zone are parsed again under the next one and must give THAT zone's wall-clock reading of the instant; formatting and parsing a
    local datetime round-trips in every zone of the sequence. Nothing computed under the previous zone may be remembered."""
    import time
    rnd = random.Random(spec['seed'] * 7919 + 157)
    texts = ['2024-03-10T06:59:59.000+00:00', '2024-03-10T07:00:00.000+00:00', '2024-11-03T05:45:00.000+00:00', '2021-06-15T12:00:00.000+05:45', '2021-01-15T23:59:59.999-03:30',
             '1999-12-31T23:59:59.999+00:00', '2020-02-29T00:00:00.000+13:45', '2024-07-01T12:00:00.000-09:30', '2010-10-10T10:10:10.010+10:30', '1970-01-01T00:00:00.000+00:00']
    try:
        for rep in range(spec['n']):
            zone = rnd.choice(ZONES)
            os.environ['TZ'] = zone
            time.tzset()
            zi = zoneinfo.ZoneInfo(zone)
            acc.cover('zone_switches', zone)
            for t in texts:
                acc.case(('tzswitch', rep, zone, t), True)
                want = DT.fromisoformat(t).astimezone(zi).replace(tzinfo=None)
                got = call(api, 'datetimeISOParse', t)
                acc.count('parses_after_zone_switch')
                if not isinstance(got, DT) or got.replace(tzinfo=None) != want:
                    acc.violation('parse-remembers-earlier-zone', f'after switching the process to {zone}: datetimeISOParse({t!r}) = {got!r}, local reading of that instant is {want!r}',
                                  {'zone': zone, 'text': t})
                    return
            # and the property's own round trip for a local datetime of this zone
            d = DT(rnd.randint(1971, 2090), rnd.randint(1, 12), rnd.randint(1, 28), rnd.randint(3, 23), rnd.randint(0, 59), rnd.randint(0, 59), rnd.randint(0, 999) * 1000)
            check_datetime(d, acc, api, zi, zone, f'after a switch to {zone}')
            texts.append(call(api, 'datetimeISOFormat', d))
            if len(texts) > 40:
                del texts[rnd.randrange(10, len(texts))]
    finally:
        os.environ['TZ'] = spec['env']['TZ']
        time.tzset()


def run_shard(spec, acc):
    api = _api()
    if os.environ.get('TZ') != spec['env']['TZ']:
        acc.note_inconclusive('TZ was not applied to the shard process')
        return
    if spec['part'] == 'tzswitch':
        run_tzswitch(spec, acc, api)
        return
    if spec['part'] == 'random':
        run_random(spec, acc, api)
    else:
        run_transitions(spec, acc, api)


def replay(spec, acc):
    acc.note_inconclusive('zone cases are replayed by re-running the check: ./check C16 quick (the case lists zone and components)')
