"""C10 - source layout does not change the parsed program (metamorphic: model equality against the canonical layout)."""
import glob
import itertools
import json
import os
import random
import re

from .. import core, gen_prog
from ..refast import pp
from .c06 import MarkGen

_COMMENT = re.compile(r'^\s*(?:#.*)?$')


def plan(tier, seed):
    nsh = 16
    n = 60 if tier == 'quick' else 1500
    specs = [{'part': 'generated', 'n': n, 'shard': sh, 'rewrites': 12 if tier == 'quick' else 30} for sh in range(nsh)]
    specs.append({'part': 'shipped', 'rewrites': 40 if tier == 'quick' else 1500, 'shard': 0})
    if tier == 'thorough':
        for sh in range(1, 8):
            specs.append({'part': 'shipped', 'rewrites': 1500, 'shard': sh})
    return specs


def meta(tier):
    return {
        'level': 'exploration',
        'rule': ('generated structured programs (C01/C06 generators) and the seven shipped .bare scripts, each re-laid-out by seeded '
                 'rewrites: LF vs CRLF; one string vs chunk lists/tuples/generators (all chunkings with up to 6 cuts for short texts, '
                 'sampled otherwise); blank/comment insertion with p=0.3 per line including inside continued lines; indentation from '
                 '{none, spaces, tab}; trailing blanks/tabs; a continuation backslash between ANY two adjacent tokens (strings, bracket '
                 'names and <system urls> are single tokens). Each rewrite must parse to the canonical model; parse A, parse B, parse A again must give A. '
                 'Non-trivial: the rewrite differs from the canonical text and the text has >= 3 lines; distinct = distinct rewritten text.'),
        'exhaustive': False,
        'assumptions': ['a space is allowed between any two adjacent tokens of a valid line (string literals, [bracket names] and <system urls> are single tokens)'],
    }


def _api():
    from bare_script.parser import BareScriptParserError, parse_expression, parse_script
    return parse_script, parse_expression, BareScriptParserError


_TOKEN = re.compile(r"""\s+|'(?:\\.|[^'\\])*'|"(?:\\.|[^"\\])*"|\[(?:\\\]|[^\]])*\]|\.\.\.|\*\*|<=|>=|==|!=|&&|\|\||\d+(?:\.\d*)?(?:e[+-]\d+)?|[A-Za-z_]\w*|.""")
_INCLUDE_SYS = re.compile(r'^(\s*include\s+)(<[^>]*>)(\s*)$')


def tokens_of(line):
    """(start, end) of every non-blank token of a line: strings, [bracket names], <system urls>, numbers, names,
    multi-character operators, single characters. A space is allowed between any two adjacent tokens."""
    m = _INCLUDE_SYS.match(line)
    if m:
        a = len(m.group(1)) - len(m.group(1).lstrip())
        return [(a, a + len('include')), (m.start(2), m.end(2))]
    out = []
    for t in _TOKEN.finditer(line):
        if not t.group(0).isspace():
            out.append((t.start(), t.end()))
    return out


def safe_gaps(line):
    """Cut points (index of the token after the cut) where a line may be broken with a continuation backslash: between any
    two adjacent tokens, whether or not a blank is there now (joining re-inserts a single blank)."""
    toks = tokens_of(line)
    if toks and line[toks[-1][0]:toks[-1][1]] == '\\':
        toks = toks[:-1]  # never cut right before an existing continuation backslash
    quotes = line.count("'") + line.count('"')
    if quotes % 2:
        return []  # unbalanced quote on this physical line: do not touch it
    return [(toks[i][1], toks[i + 1][0]) for i in range(len(toks) - 1)]


_TIGHT = {'=', '+', '*', '/', '%', '<', '>', ',', ')', '==', '!=', '<=', '>=', '&&', '||', '**', ':'}


def compact_line(ln):
    """The same line without the OPTIONAL blanks: none around binary-only operators, the assignment sign, commas, closing parentheses and
    the colon of a header, none after an opening parenthesis, none between `jumpif` and its parenthesis. (Blanks after a word in front of
    `(`, `-`, `!`, a quote or a bracket stay: there they can separate a keyword from its expression.)"""
    if _COMMENT.match(ln) or ln.rstrip().endswith('\\') or (ln.count("'") + ln.count('"')) % 2 or _INCLUDE_SYS.match(ln) or re.match(r'^\s*include\s', ln):
        return ln
    toks = tokens_of(ln)
    if not toks:
        return ln
    out = [ln[:toks[0][0]]]
    for k, (a, b) in enumerate(toks):
        tok = ln[a:b]
        out.append(tok)
        if k + 1 < len(toks):
            nxt = ln[toks[k + 1][0]:toks[k + 1][1]]
            gap = ln[b:toks[k + 1][0]]
            if gap and (tok in _TIGHT or nxt in _TIGHT or tok == '(' or (tok == 'jumpif' and nxt == '(' and k == 0)) and not (tok == ':' or (nxt == ':' and k + 2 < len(toks)) or (tok == ')' and (nxt[:1].isalnum() or nxt[:1] == '_'))):
                gap = ''
            out.append(gap)
    out.append(ln[toks[-1][1]:])
    return ''.join(out)


def rewrite(text, rnd):
    """One random layout rewrite of a text; returns (script_text argument, description)."""
    lines = text.split('\n')
    if rnd.random() < 0.3:
        lines = [compact_line(ln) for ln in lines]
    ops = []
    out = []
    indent_mode = rnd.choice(['keep', 'none', 'spaces', 'tab', 'keep'])
    trail = rnd.random() < 0.5
    cont = rnd.random() < 0.6
    noise = rnd.random() < 0.6
    for ln in lines:
        if _COMMENT.match(ln):
            out.append(ln)
            continue
        if noise and rnd.random() < 0.3:
            out.append(rnd.choice(['', '# layout comment', '    ', '\t', "# it's \\"]))
        body = ln.lstrip()
        lead = ln[:len(ln) - len(body)]
        if indent_mode == 'none':
            lead = ''
        elif indent_mode == 'spaces':
            lead = ' ' * rnd.randint(0, 9)
        elif indent_mode == 'tab':
            lead = '\t' * rnd.randint(0, 3)
        ln2 = lead + body
        gaps = safe_gaps(ln2) if cont else []
        if gaps and rnd.random() < 0.5:
            cuts = sorted(rnd.sample(gaps, min(len(gaps), rnd.choice([1, 1, 2, 3]))))
            prev = 0
            parts = []
            for end_prev, start_next in cuts:
                parts.append(ln2[prev:end_prev])
                prev = start_next
            parts.append(ln2[prev:])
            for k, p in enumerate(parts):
                last = k == len(parts) - 1
                seg = (p if k == 0 else rnd.choice(['', '    ', '\t']) + p) + ('' if last else rnd.choice([' \\', ' \\ ', ' \\\t', '  \\', '\\', '\\  ', '\t\\']))
                out.append(seg)
                if not last and noise and rnd.random() < 0.3:
                    out.append(rnd.choice(['', '# inside a continued line', '   ']))
            ops.append('cont')
        else:
            out.append(ln2)
        if trail and rnd.random() < 0.4:
            out[-1] = out[-1] + rnd.choice([' ', '  ', '\t', ' \t '])
    eol = rnd.choice(['\n', '\r\n', 'mixed'])
    form = rnd.choice(['str', 'list', 'tuple', 'gen', 'str'])
    if eol == 'mixed':
        # ONE text whose lines end in LF here and CRLF there: every line end is decided on its own

        class _Mixed(str):
            def join(self, parts):  # pylint: disable=arguments-renamed
                parts = list(parts)
                return ''.join(p + (rnd.choice(['\n', '\r\n']) if k < len(parts) - 1 else '') for k, p in enumerate(parts))
        eol = _Mixed('mixed')
    if form == 'str':
        return eol.join(out), f'{indent_mode},{"mixed" if eol == "mixed" else ("crlf" if eol != chr(10) else "lf")},str'
    ncuts = rnd.randint(0, min(6, len(out) - 1)) if len(out) > 1 else 0
    cuts = sorted(rnd.sample(range(1, len(out)), ncuts)) if ncuts else []
    chunks = [eol.join(out[a:b]) for a, b in zip([0] + cuts, cuts + [len(out)])]
    if form == 'tuple':
        chunks = tuple(chunks)
    elif form == 'gen':
        chunks = (c for c in list(chunks))
    return chunks, f'{indent_mode},{"mixed" if eol == "mixed" else ("crlf" if eol != chr(10) else "lf")},{form}{len(cuts)}'


FAILING = ['xx = ((((((((((1 +', 'yy = fn(fn(fn(fn(fn(fn(1 +', 'zz = (fn((fn((fn((1 @', 'ww = max(1, (2, (3, (4, (5 +', 'xx = 1 + \\', 'aa = fn(1, \\\n  2, \\', 'function ff():\n    aa = 1', 'if xx:', 'while xx:\n    yy = 1 \\', 'xx = (1 +', "xx = 'abc", 'for xx in yy:\nendif',
           'endfunction', 'else:', 'function ff():\n    if xx:\n        aa = 1 \\', 'function ff():\n    function gg():', 'lbl:\njumpif (xx lbl', 'break', 'xx = 1 +* 2',
           'for xx in yy:\n    continue \\', 'function ff(aa, aa):\n    return aa +\nendfunction', "include 'abc\nyy = 2"]


def scramble(node):
    """Edit a model in place: every number, string, name and list that the parser handed out is changed."""
    if isinstance(node, dict):
        for k in list(node):
            v = node[k]
            if isinstance(v, bool):
                node[k] = not v
            elif isinstance(v, (int, float)):
                node[k] = v + 41
            elif isinstance(v, str):
                node[k] = v + '_edited'
            else:
                scramble(v)
        node['$edited'] = True
    elif isinstance(node, list):
        for i, v in enumerate(node):
            if isinstance(v, str):
                node[i] = v + '_edited'
            elif isinstance(v, (int, float)) and not isinstance(v, bool):
                node[i] = v + 41
            else:
                scramble(v)
        node.append({'$edited': True})


def all_chunkings(lines, maxcuts=6):
    n = len(lines)
    for k in range(0, min(maxcuts, n - 1) + 1):
        for cuts in itertools.combinations(range(1, n), k):
            yield [('\n'.join(lines[a:b])) for a, b in zip((0,) + cuts, cuts + (n,))]


def check_rewrites(name, text, nrew, rnd, acc, api, exhaustive_chunks=False):
    parse_script, parse_expression, perr = api
    try:
        canon = parse_script(text)
    except perr as exc:
        acc.violation('canonical-text-rejected', f'{name}: {exc}', {'text': text, 'name': name})
        return
    cj = json.dumps(canon, sort_keys=True)
    nlines = text.count('\n') + 1
    for r in range(nrew):
        arg, desc = rewrite(text, rnd)
        shown = arg if isinstance(arg, str) else None
        if not isinstance(arg, (str, list, tuple)):
            arg = list(arg)
            shown = None
            arg_for_parse = (c for c in arg)
        else:
            arg_for_parse = arg
        key = arg if isinstance(arg, str) else '\x00'.join(arg)
        acc.case(key, key != text and nlines >= 3)
        acc.cover('rewrite_kinds', desc.rsplit(',', 1)[0] + ',' + re.sub(r'\d+', '', desc.rsplit(',', 1)[1]))
        case = {'name': name, 'text': text, 'rewrite': arg if isinstance(arg, str) else list(arg)}
        try:
            # (the optional start line number only offsets the line numbers of diagnostics: the model depends on the lines alone)
            start_no = rnd.choice([None, None, 1, 7, 100, 2500])
            got = parse_script(arg_for_parse) if start_no is None else parse_script(arg_for_parse, start_no)
        except perr as exc:
            fid = classify(exc, arg)
            if fid:
                acc.known_finding(fid, f'{name}: {exc.error} at {exc.line!r:.80}')
            else:
                acc.violation('layout-rewrite-rejected', f'{name} [{desc}]: {exc.error} line {exc.line_number}: {exc.line!r:.200}', case)
            continue
        except Exception as exc:  # pylint: disable=broad-except
            acc.violation('parser-totality', f'{name} [{desc}]: {type(exc).__name__}: {exc}', case)
            continue
        if json.dumps(got, sort_keys=True) != cj:
            acc.violation('layout-changes-model', f'{name} [{desc}]: model differs from the canonical layout; first difference: {first_diff(canon, got)}', case)
            continue
        acc.count('rewrites_equal')
        # determinism / no state between calls: A, B, A
        if r % 5 == 0:
            again = parse_script(text)
            acc.count('determinism_checks')
            if json.dumps(again, sort_keys=True) != cj:
                acc.violation('parser-keeps-state', f'{name}: parsing the canonical text again after a rewrite gives another model', case)
            # ... and after the caller EDITED a model it got back (every node changed in place): later parses hand out fresh nodes
            scramble(again)
            scramble(got)
            again = parse_script(text)
            acc.count('determinism_checks')
            if json.dumps(again, sort_keys=True) != cj:
                acc.violation('parser-shares-nodes-between-calls', f'{name}: after editing an earlier result in place the canonical text gives another model; first difference: {first_diff(canon, again)}', dict(case, scrambled=True))
            # ... and after a parse that FAILED (every error exit of the parser), in any input form
            bad = rnd.choice(FAILING)
            try:
                parse_script(bad if rnd.random() < 0.5 else bad.split('\n'))
                acc.count('failing_text_accepted')
            except perr:
                acc.count('failed_parses_before_reparse')
            again = parse_script(text if rnd.random() < 0.5 else text.split('\n'))
            if json.dumps(again, sort_keys=True) != cj:
                acc.violation('parser-keeps-state-after-error', f'{name}: after a failed parse of {bad!r} the canonical text gives another model; first difference: {first_diff(canon, again)}', dict(case, failed_first=bad))
    if exhaustive_chunks:
        lines = text.split('\n')
        for chunks in all_chunkings(lines):
            acc.case('\x00'.join(chunks), len(chunks) > 1 and nlines >= 3)
            acc.count('exhaustive_chunkings')
            got = parse_script(chunks)
            if json.dumps(got, sort_keys=True) != cj:
                acc.violation('chunking-changes-model', f'{name}: chunks {[c.count(chr(10)) + 1 for c in chunks]}', {'name': name, 'text': text, 'rewrite': chunks})
                break


def classify(exc, arg):
    return None


def first_diff(a, b, path='$'):
    if type(a) is not type(b):
        return f'{path}: {a!r:.80} vs {b!r:.80}'
    if isinstance(a, dict):
        for k in sorted(set(a) | set(b)):
            if k not in a or k not in b:
                return f'{path}.{k} only on one side'
            d = first_diff(a[k], b[k], f'{path}.{k}')
            if d:
                return d
        return None
    if isinstance(a, list):
        if len(a) != len(b):
            return f'{path}: lengths {len(a)} vs {len(b)}'
        for i, (x, y) in enumerate(zip(a, b)):
            d = first_diff(x, y, f'{path}[{i}]')
            if d:
                return d
        return None
    return None if a == b else f'{path}: {a!r:.80} vs {b!r:.80}'


def run_shard(spec, acc):
    api = _api()
    parse_script, parse_expression, perr = api
    base = spec['seed'] * 1000003 + spec['shard'] * 7919 + 53
    if spec['part'] == 'generated':
        for i in range(spec['n']):
            rnd = random.Random(base + i)
            if rnd.random() < 0.5:
                gen = gen_prog.ProgGen(rnd, maxdepth=rnd.choice([2, 3, 4]))
            else:
                gen = MarkGen(rnd, maxdepth=rnd.choice([1, 2, 3]))
            prog = gen.program()
            if rnd.random() < 0.3:
                prog = prog + [['return', None]]
            text = '\n'.join(pp(prog))
            if rnd.random() < 0.35:
                # characters that str.splitlines() treats as line boundaries but the language does not (only LF / CRLF end a line):
                # inside string literals and comments they are ordinary characters, whatever the input form is
                exotic = rnd.choice(['\x0c', '\x0b', '\x1c', '\x85', '\u2028', '\u2029', '\r'])
                text = text + f"\nxs{i} = 'a{exotic}b' + \"c{exotic}\"\n# comment with {exotic} inside\nsystemLog(xs{i})"
            if rnd.random() < 0.3:
                text = "include 'a b.bare'\ninclude <sys lib.bare>\n" + text + "\nlbl1:\njumpif (va < 3) lbl1\njump lbl2\nlbl2:"
            check_rewrites(f'gen{i}', text, spec['rewrites'], rnd, acc, api, exhaustive_chunks=text.count('\n') <= 9)
            if len(acc.samples) < 2:
                arg, desc = rewrite(text, random.Random(1))
                acc.sample({'canonical': text.split('\n')[:12], 'rewrite_kind': desc,
                            'rewritten': (arg if isinstance(arg, str) else '\n'.join(list(arg))).split('\n')[:16]})
        # no state between calls: texts that differ only INSIDE string literals, parsed in every order, keep their own content
        lits = [("'a b'", 'a b'), ("'a  b'", 'a  b'), ("'a\tb'", 'a\tb'), ("' '", ' '), ("'\t'", '\t'), ("'  '", '  '), ('"a b"', 'a b'), ('"a   b"', 'a   b')]
        rnd2 = random.Random(base)
        for _ in range(30):
            rnd2.shuffle(lits)
            for lit, content in lits:
                e1 = parse_expression(f'len({lit})')
                m1 = parse_script(f'xx = strip({lit}) + {lit}')
                got = [e1['function']['args'][0].get('string'), m1['statements'][0]['expr']['expr']['binary']['right'].get('string')]
                acc.case(('literal-state', lit, _), True)
                acc.count('determinism_checks')
                if got != [content, content]:
                    acc.violation('parser-keeps-state', f'literal {lit!r} parsed as {got!r} after other literals were parsed', {'text': lit})
                    break
        # expression determinism
        for e in ['a + b * c', 'fn(1, 2) && !x', "'s' + [a b]"]:
            a1 = parse_expression(e)
            parse_expression('zz ** 2')
            if parse_expression(e) != a1:
                acc.violation('parse-expression-keeps-state', e, {'text': e})
            acc.count('determinism_checks')
    else:
        files = sorted(glob.glob(os.path.join(core.REPO_SRC, 'bare_script', 'include', '*.bare')))
        if not files:
            acc.note_inconclusive('no shipped .bare scripts found')
        for f in files:
            with open(f, 'r', encoding='utf-8') as fh:
                text = fh.read()
            rnd = random.Random(base + len(text))
            check_rewrites(os.path.basename(f), text.rstrip('\n'), max(1, spec['rewrites'] // len(files)), rnd, acc, api)
            acc.cover('shipped_scripts', os.path.basename(f))


def replay(spec, acc):
    api = _api()
    parse_script, _, perr = api
    case = spec['case']
    if 'rewrite' not in case:
        acc.note_inconclusive('finding-level replay entry')
        return
    canon = parse_script(case['text'])
    acc.case(json.dumps(case['rewrite']), True)
    if case.get('scrambled'):
        scramble(parse_script(case['text']))
        again = parse_script(case['text'])
        if again != canon:
            acc.violation('parser-shares-nodes-between-calls', first_diff(canon, again), case)
            return
    if case.get('failed_first'):
        try:
            parse_script(case['failed_first'])
        except perr:
            pass
        again = parse_script(case['text'])
        if again != canon:
            acc.violation('parser-keeps-state-after-error', first_diff(canon, again), case)
            return
    try:
        got = parse_script(case['rewrite'])
    except perr as exc:
        acc.violation('layout-rewrite-rejected', str(exc), case)
        return
    if got != canon:
        acc.violation('layout-changes-model', first_diff(canon, got), case)
