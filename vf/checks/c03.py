"""C03 - expression evaluation follows the typed operator semantics.
Oracle: RefEval (independent typed operator table) + probe events in the log for order/once/laziness."""
import copy
import datetime
import itertools
import json
import math
import random
import re

from .. import core, gen_prog, refeval, refval
from ..refeval import ALIASES, Domain, RefEval, RefRuntimeError, Unspecified
from ..refexpr import OPS

TZ = datetime.timezone


def pool():
    f1 = gen_prog.host_fn

    def f2(args, options):  # pylint: disable=unused-argument
        return None
    return [
        None, True, False,
        0, 0.0, -0.0, 1, 1.0, -1, 2, 2.5, -2.5, 3, 7, 0.1, 1e15, 1e16, 123456789012345678, 1e308, -1e308, 5e-324, 1e20, 2 ** 53, -7.25,
        '', 'a', 'ab', 'b', '1', '1.5', 'null', 'true', ' ', 'A',
        datetime.datetime(2020, 1, 1), datetime.datetime(2020, 1, 1, 0, 0, 0, 5000), datetime.date(2020, 1, 1),
        datetime.datetime(2020, 6, 1, 12, tzinfo=TZ.utc), datetime.datetime(2019, 12, 31, 23, 59, 59, 999000),
        datetime.datetime(2021, 3, 14, 3, 30), datetime.datetime(1999, 12, 31, 12, tzinfo=TZ(datetime.timedelta(hours=5, minutes=30))),
        datetime.date(1970, 1, 1), datetime.datetime(2020, 1, 1, 0, 0, 0, 5500),
        [], [1], [1.0, 'a'], [[1]], [None], [0], [1, 2], [1, 2.5], [2], [1, 3], [1, 2, 3], [3, 0, 0], [[2], 1], [[1, 5]], [True], ['a', 'b'], ['b'],
        {}, {'a': 1}, {'a': 1.0, 'b': [1]}, {'b': 1}, {'a': None}, {'a': True}, {'a': False}, {'a': 0}, {'a': [2]}, {'a': [1, 3]}, {'a': 2, 'b': 0}, {'b': 1, 'a': 2}, {'b': 2, 'a': 1}, {'a': 2}, {'a': 1, 'b': 0}, {'a': 1, 'c': 0}, {'b': 0, 'c': 5},
        f1, f2, re.compile('a'), re.compile('b'),
    ]


def plan(tier, seed):
    specs = []
    zones = ['UTC', 'America/New_York'] if tier == 'quick' else ['UTC', 'America/New_York', 'Asia/Kolkata', 'Australia/Lord_Howe']
    for z in zones:
        for sh in range(2 if tier == 'quick' else 3):
            specs.append({'part': 'matrix', 'env': {'TZ': z}, 'mod': 2 if tier == 'quick' else 3, 'rem': sh})
    nr = 12 if tier == 'quick' else 16
    for sh in range(nr):
        specs.append({'part': 'trees', 'n': 2500 if tier == 'quick' else 60000, 'shard': sh, 'env': {'TZ': zones[sh % len(zones)]}})
    for sh in range(2 if tier == 'quick' else 8):
        specs.append({'part': 'alias', 'n': 60 if tier == 'quick' else 600, 'shard': sh, 'env': {'TZ': zones[sh % len(zones)]}})
    return specs


def meta(tier):
    return {
        'level': 'exploration',
        'rule': ('(a) full matrix: 14 binary operators x pool^2 and 2 unary operators x pool, pool = 68 values of all nine types, '
                 'in several process time zones; (b) seeded random expression trees to depth 6 whose operands are effect-logging '
                 'host probes (order, exactly-once, laziness of && || if() are log events); (c) each of the 46 expression '
                 'built-ins against the library function a hard-coded documentation table names, on valid and invalid argument '
                 'lists, plus shadowing by locals/globals. Non-trivial: matrix cell with both operands non-null, tree with >= 2 '
                 'operators, alias call with >= 1 argument; distinct = distinct (expression, operand values, zone).'),
        'exhaustive': False,
        'extra': {'exhaustive_part': 'operator x operand-pair matrix over the fixed pool'},
        'assumptions': ['results of arithmetic domain errors are not fixed by C03 (C05 owns containment): skipped when the reference says Domain',
                        '% is asserted for non-negative operands only; int**int with huge exponents is never generated',
                        'library functions reached through aliases are the real ones (C12/C15/C16 own their semantics)'],
    }


def same_value(x, y):
    tx, ty = refval.rtype(x), refval.rtype(y)
    if tx != ty:
        return False
    if tx in ('function', 'regex'):
        return x is y
    if tx == 'array':
        return len(x) == len(y) and all(same_value(p, q) for p, q in zip(x, y))
    if tx == 'object':
        return sorted(x) == sorted(y) and all(same_value(x[k], y[k]) for k in x)
    if tx == 'number' and isinstance(x, float) and isinstance(y, float) and x == 0 and y == 0:
        # the sign of a float zero is observable ('' + -0.0 is "-0", 1 / x, atan2): 0.0 and -0.0 are not the same result
        return math.copysign(1, x) == math.copysign(1, y)
    return refval.veq(x, y)


def _api():
    from bare_script.library import SCRIPT_FUNCTIONS
    from bare_script.runtime import BareScriptRuntimeError, evaluate_expression
    return evaluate_expression, SCRIPT_FUNCTIONS, BareScriptRuntimeError


def eval_both(expr, gvals, acc, api, builtins=False, locals_=None, case=None, kind='expr'):
    """Evaluate on the reference first; skip cases the reference leaves unspecified; then on the real evaluator."""
    evaluate_expression, lib, rt_err = api
    outcome = {}
    for variant in (False, True):
        g = dict(gvals)
        logs = []
        opts = {'globals': g, 'logFn': logs.append}
        ev = RefEval(g, opts, lib, refeval.Propagate, builtins=builtins, bool_num=variant)
        try:
            outcome[variant] = ('ok', ev.ev(expr, dict(locals_) if locals_ is not None else None), logs)
        except Unspecified:
            outcome[variant] = None
        except Domain:
            outcome[variant] = None
            if variant is False:
                # an arithmetic domain error on supported operand types (x / 0, datetime + NaN, huge ** huge): the VALUE is left to the
                # implementation, but it is a value (or a runtime error) - never a host exception
                g2 = dict(gvals)
                try:
                    with core.alarm(10):
                        dv = evaluate_expression(expr, {'globals': g2, 'logFn': None}, dict(locals_) if locals_ is not None else None, builtins)
                    acc.count('domain_error_cases_evaluated')
                    if not (dv is None or isinstance(dv, (bool, int, float, str, list, dict, datetime.date, re.Pattern)) or callable(dv)):
                        # ... and a value of the language: one of the nine types (a host complex number, a Decimal ... is none of them)
                        acc.violation(kind + '-domain-error-yields-a-non-value', f'expr={json.dumps(expr, default=repr)[:400]} operands={ {k: v for k, v in gvals.items() if len(k) == 2}!r}: '
                                      f'{type(dv).__name__} {dv!r:.80}', case or {'expr': expr, 'globals': refval.enc({k: v for k, v in gvals.items() if k in ('aa', 'bb')})})
                        return 'violation'
                except core.CaseTimeout:
                    acc.timeouts += 1
                except rt_err:
                    acc.count('domain_error_cases_evaluated')
                except Exception as exc:  # pylint: disable=broad-except
                    acc.violation(kind + '-host-exception-on-domain-error', f'expr={json.dumps(expr, default=repr)[:400]} operands={ {k: v for k, v in gvals.items() if len(k) == 2}!r}: '
                                  f'{type(exc).__name__}: {exc}', case or {'expr': expr, 'globals': refval.enc({k: v for k, v in gvals.items() if k in ('aa', 'bb')})})
                    return 'violation'
        except RefRuntimeError as exc:
            outcome[variant] = ('rterr', str(exc), logs)
        if variant is False and outcome[False] is None:
            acc.count('skipped_domain_or_unspecified')
            return 'skip'
    g = dict(gvals)
    logs = []
    opts = {'globals': g, 'logFn': logs.append}
    try:
        with core.alarm(10):
            real = ('ok', evaluate_expression(expr, opts, dict(locals_) if locals_ is not None else None, builtins), logs)
    except core.CaseTimeout:
        acc.timeouts += 1
        return 'timeout'
    except rt_err as exc:
        real = ('rterr', str(exc), logs)
    except Exception as exc:  # pylint: disable=broad-except
        real = ('host-exception', f'{type(exc).__name__}: {exc}', logs)

    def agree(a, b):
        if a is None or b is None or a[0] != b[0] or a[2] != b[2]:
            return False
        return same_value(a[1], b[1]) if a[0] == 'ok' else a[1] == b[1]
    if agree(real, outcome[False]):
        return 'ok'
    if outcome[True] is None or agree(real, outcome[True]):
        # bool-coerced reference agrees, or says the result is an arithmetic domain error / unspecified (any value fits)
        acc.known_finding('F14', json.dumps(expr, default=repr)[:200] + ' with ' + repr({k: v for k, v in gvals.items() if k in ('aa', 'bb')})[:200])
        return 'known'
    if real[0] == 'host-exception':
        # a host exception escaping is C05's property; for C03 the value is simply not the specified one
        acc.count('cross_C05_host_exception')
    exp = outcome[False]
    acc.violation(kind + '-value-differs', f'expr={json.dumps(expr, default=repr)[:500]} operands={ {k: v for k, v in gvals.items() if len(k) == 2}!r} '
                  f'real={real!r:.500} expected={exp!r:.500}', case or {'expr': expr, 'globals': refval.enc({k: v for k, v in gvals.items() if k in ('aa', 'bb')})})
    return 'violation'


def VAR(n):
    return {'variable': n}


def run_matrix(spec, acc, api):
    P = pool()
    ix = 0
    hosts = {'hp': gen_prog.host_hp}
    for op in OPS:
        e = {'binary': {'op': op, 'left': VAR('aa'), 'right': VAR('bb')}}
        for a, b in itertools.product(P, repeat=2):
            ix += 1
            if ix % spec['mod'] != spec['rem']:
                continue
            if op == '**' and isinstance(a, int) and isinstance(b, int) and not isinstance(a, bool) and not isinstance(b, bool) and abs(b) > 64:
                acc.count('skipped_huge_int_power')
                continue
            v = eval_both(e, {'aa': a, 'bb': b, **hosts}, acc, api, kind='matrix')
            acc.case((op, refval.canon(a), refval.canon(b), refval.rtype(a), refval.rtype(b), spec['env']['TZ']), a is not None and b is not None)
            acc.cover('op_type_type', f'{op} {refval.rtype(a)} {refval.rtype(b)}')
            acc.count('verdict_' + v)
    if spec['rem'] == 0:
        # non-finite operands of the arithmetic operators (reachable in the language through 1e308 * 10): comparisons with NaN are
        # outside the value order (C11 excludes NaN), so only + - * / % ** are driven, against numbers and datetimes, both orders
        nonfinite = [float('inf'), float('-inf'), float('nan')]
        others = [0, 1.5, -2, 1e308, datetime.datetime(2020, 1, 1), datetime.date(2020, 1, 1), datetime.datetime(2020, 6, 1, 12, tzinfo=TZ.utc)]
        for op in ('+', '-', '*', '/', '%', '**'):
            e = {'binary': {'op': op, 'left': VAR('aa'), 'right': VAR('bb')}}
            for a, b in list(itertools.product(nonfinite, others)) + list(itertools.product(others, nonfinite)) + list(itertools.product(nonfinite, repeat=2)):
                v = eval_both(e, {'aa': a, 'bb': b, **hosts}, acc, api, kind='nonfinite')
                acc.case((op, repr(a), repr(b), spec['env']['TZ']), True)
                acc.count('verdict_' + v)
                acc.count('nonfinite_operand_cases')
    for op in '!-':
        e = {'unary': {'op': op, 'expr': VAR('aa')}}
        for a in P:
            v = eval_both(e, {'aa': a}, acc, api, kind='unary')
            acc.case(('u' + op, refval.canon(a), refval.rtype(a)), a is not None)
            acc.count('verdict_' + v)
    acc.sample({'matrix': '14 operators x pool^2', 'pool_size': len(P), 'zone': spec['env']['TZ'],
                'example_cell': ["'ab' + 2.5", refval.rstr('ab') + refval.rstr(2.5)]})


def rand_operand(rnd, P, tagc):
    tagc[0] += 1
    x = rnd.random()
    lit = rnd.choice(P)
    name = f'v{tagc[0]}'
    return {'function': {'name': 'hp', 'args': [{'string': f't{tagc[0]}'}, VAR(name)]}} if x < 0.8 else VAR(name), name, lit


def rand_tree(rnd, P, depth, tagc, env):
    x = rnd.random()
    if depth <= 0 or x < 0.2:
        e, name, lit = rand_operand(rnd, P, tagc)
        env[name] = lit
        return e
    if x < 0.6:
        op = rnd.choice(['&&', '||', '&&', '||', '+', '-', '*', '<', '==', '!=', '>=', '/', '%', '+', '<=', '>'])
        return {'binary': {'op': op, 'left': rand_tree(rnd, P, depth - 1, tagc, env), 'right': rand_tree(rnd, P, depth - 1, tagc, env)}}
    if x < 0.7:
        return {'unary': {'op': rnd.choice('!-'), 'expr': rand_tree(rnd, P, depth - 1, tagc, env)}}
    if x < 0.85:
        return {'function': {'name': 'if', 'args': [rand_tree(rnd, P, depth - 1, tagc, env) for _ in range(rnd.choice([0, 1, 2, 3, 3, 3, 4]))]}}
    if x < 0.92:
        return {'group': rand_tree(rnd, P, depth - 1, tagc, env)}
    return {'function': {'name': rnd.choice(['h2', 'arrayNew', 'h2']),
                         'args': [rand_tree(rnd, P, depth - 1, tagc, env) for _ in range(rnd.randint(0, 3))]}}


def host_h2(args, options):
    log = options.get('logFn')
    if log:
        log(f'h2 called with {len(args)} args')
    return args[-1] if args else None


def run_trees(spec, acc, api):
    P = [v for v in pool() if not (isinstance(v, (int, float)) and not isinstance(v, bool) and abs(v) > 1e14)]
    base = spec['seed'] * 1000003 + spec['shard'] * 7919 + 5
    for i in range(spec['n']):
        rnd = random.Random(base + i)
        env = {'hp': gen_prog.host_hp, 'h2': host_h2}
        tagc = [0]
        tree = rand_tree(rnd, P, rnd.randint(1, 6), tagc, env)
        nops = json.dumps(tree).count('"op"') + json.dumps(tree).count('"if"')
        v = eval_both(tree, env, acc, api, kind='tree',
                      case={'expr': tree, 'globals': refval.enc({k: x for k, x in env.items() if k[0] == 'v'}), 'tree': True})
        acc.case((json.dumps(tree, sort_keys=True), repr(refval.canon({k: x for k, x in env.items() if k[0] == 'v'}))), nops >= 2)
        acc.count('verdict_' + v)
        if v == 'ok' and nops >= 3:
            acc.sample({'expr': tree, 'operands': refval.canon({k: x for k, x in env.items() if k[0] == 'v'})}, limit=2)


def call_lib(fn, args, options):
    try:
        return ('ok', fn(args, options))
    except Exception as exc:  # pylint: disable=broad-except
        if type(exc).__name__ == 'BareScriptRuntimeError':
            return ('rterr', str(exc))
        return ('ok', getattr(exc, 'return_value', None) if type(exc).__name__ == 'ValueArgsError' else None)


NONDET = {'now', 'today', 'rand'}


def run_alias(spec, acc, api):
    evaluate_expression, lib, rt_err = api
    P = [v for v in pool() if not (isinstance(v, (int, float)) and not isinstance(v, bool) and abs(v) > 1e14)]
    good = {'number': [0.0, 1.0, 2.0, 2.5, -1.0, 10.0, 100.0, 0.5], 'string': ['abc', 'a', '', 'Hello World ', '12', '1.5e3'],
            'dt': [datetime.datetime(2020, 2, 29, 13, 14, 15, 16000), datetime.date(2021, 1, 2)]}
    base = spec['seed'] * 1000003 + spec['shard'] * 7919 + 11
    rnd = random.Random(base)
    acc.count('aliases_in_table', len(ALIASES))
    for alias, target in sorted(ALIASES.items()):
        fn = lib.get(target)
        if fn is None:
            acc.violation('alias-target-missing', f'{alias} -> {target}', {'alias': alias})
            continue
        for j in range(spec['n']):
            nargs = rnd.choice([0, 1, 1, 2, 2, 3, 4])
            args = []
            for _ in range(nargs):
                x = rnd.random()
                if x < 0.7:
                    kind = 'dt' if alias in ('day', 'hour', 'minute', 'month', 'second', 'millisecond', 'year') else \
                        ('string' if alias in ('charCodeAt', 'endsWith', 'indexOf', 'lastIndexOf', 'len', 'lower', 'parseInt', 'parseFloat',
                                               'replace', 'rept', 'slice', 'startsWith', 'trim', 'upper') and rnd.random() < 0.7 else 'number')
                    args.append(rnd.choice(good[kind]))
                else:
                    args.append(rnd.choice(P))
            names = [f'a{k}' for k in range(nargs)]
            expr = {'function': {'name': alias, 'args': [VAR(n) for n in names]}}
            g = dict(zip(names, args))
            opts = {'globals': dict(g), 'logFn': None}
            acc.case((alias, refval.canon(args)), nargs >= 1)
            acc.cover('aliases_exercised', alias)
            try:
                with core.alarm(10):
                    real = ('ok', evaluate_expression(expr, opts, None, True))
            except core.CaseTimeout:
                acc.timeouts += 1
                continue
            except rt_err as exc:
                real = ('rterr', str(exc))
            except Exception as exc:  # pylint: disable=broad-except
                real = ('host-exception', f'{type(exc).__name__}: {exc}')
            exp = call_lib(fn, copy.deepcopy(args), {'globals': dict(g), 'logFn': None})
            if alias in NONDET:
                ok = real[0] == 'ok' and refval.rtype(real[1]) == refval.rtype(exp[1])
            else:
                ok = real[0] == exp[0] and (same_value(real[1], exp[1]) if real[0] == 'ok' else real[1] == exp[1])
            if not ok:
                acc.violation('alias-differs', f'{alias}({args!r}) = {real!r:.300}, documented alias {target} gives {exp!r:.300}',
                              {'alias': alias, 'args': refval.enc(args)})
            # the value of a call does not depend on the logging configuration (debug mode with a log function only ADDS log lines)
            if alias not in NONDET:
                dlogs = []
                try:
                    real_dbg = ('ok', evaluate_expression(expr, {'globals': dict(g), 'logFn': dlogs.append, 'debug': True}, None, True))
                except rt_err as exc:
                    real_dbg = ('rterr', str(exc))
                except Exception as exc:  # pylint: disable=broad-except
                    real_dbg = ('host-exception', f'{type(exc).__name__}: {exc}')
                acc.count('debug_mode_comparisons')
                if real_dbg[0] != real[0] or not (same_value(real_dbg[1], real[1]) if real[0] == 'ok' else real_dbg[1] == real[1]):
                    acc.violation('value-depends-on-debug-mode', f'{alias}({args!r}) = {real!r:.200} without logging, {real_dbg!r:.200} with logFn and debug',
                                  {'alias': alias, 'args': refval.enc(args)})
            # ... nor on whether an options object exists at all (operands as locals, no options / empty options)
            if alias not in NONDET:
                for opts in (None, {}):
                    try:
                        real_no = ('ok', evaluate_expression(expr, opts, dict(g), True))
                    except rt_err as exc:
                        real_no = ('rterr', str(exc))
                    except Exception as exc:  # pylint: disable=broad-except
                        real_no = ('host-exception', f'{type(exc).__name__}: {exc}')
                    acc.count('no_options_comparisons')
                    if real_no[0] != real[0] or not (same_value(real_no[1], real[1]) if real[0] == 'ok' else real_no[0] == 'rterr'):
                        acc.violation('value-depends-on-options-object', f'{alias}({args!r}) = {real!r:.200} with options, {real_no!r:.200} with options={opts!r}',
                                      {'alias': alias, 'args': refval.enc(args)})
                        break
            # script mode: the alias name is not defined
            try:
                evaluate_expression(expr, {'globals': dict(g)}, None, False)
                acc.violation('alias-visible-in-script-mode', alias, {'alias': alias})
            except rt_err:
                pass
            except Exception as exc:  # pylint: disable=broad-except
                acc.violation('alias-script-mode-host-exception', f'{alias}: {exc!r}', {'alias': alias})
            # ... wherever the call stands in the tree: in a SELECTED if() branch, an operand, a call argument, a group, a unary operand
            if j < 3:
                wraps = [{'function': {'name': 'if', 'args': [{'variable': 'true'}, expr, {'number': 0}]}},
                         {'function': {'name': 'if', 'args': [{'variable': 'false'}, {'number': 0}, expr]}},
                         {'binary': {'op': '||', 'left': {'variable': 'false'}, 'right': expr}}, {'group': expr}, {'unary': {'op': '!', 'expr': expr}},
                         {'function': {'name': 'if', 'args': [expr, {'number': 1}, {'number': 0}]}}, {'function': {'name': 'arrayNew', 'args': [expr]}}]
                for w in wraps:
                    acc.count('script_mode_nested_alias_calls')
                    try:
                        got = evaluate_expression(w, {'globals': {**g, 'arrayNew': lambda a, o: list(a)}}, None, False)
                        acc.violation('alias-visible-in-script-mode', f'{alias} inside {json.dumps(w)[:200]} gave {got!r:.100}', {'alias': alias})
                        break
                    except rt_err:
                        pass
                    except Exception as exc:  # pylint: disable=broad-except
                        acc.violation('alias-script-mode-host-exception', f'{alias}: {exc!r}', {'alias': alias})
                        break
                if alias not in NONDET and real[0] != 'host-exception':
                    # expression mode: the call has the same value inside a selected if() branch as alone
                    try:
                        got = ('ok', evaluate_expression(wraps[0], {'globals': dict(g)}, None, True))
                    except rt_err as exc:
                        got = ('rterr', str(exc))
                    if got[0] != real[0] or (real[0] == 'ok' and not same_value(got[1], real[1])):
                        acc.violation('value-depends-on-position-in-if', f'if(true, {alias}(...), 0) = {got!r:.200}, the call alone = {real!r:.200}', {'alias': alias, 'args': refval.enc(args)})
            # a global, and a local, of the same name win over the built-in
            if j < 4:
                mark_g = lambda a, o: 'global-wins'  # noqa: E731
                mark_l = lambda a, o: 'local-wins'  # noqa: E731
                r1 = evaluate_expression(expr, {'globals': {**g, alias: mark_g}}, None, True)
                r2 = evaluate_expression(expr, {'globals': {**g, alias: mark_g}}, {alias: mark_l}, True)
                acc.count('shadow_checks', 2)
                if r1 != 'global-wins' or r2 != 'local-wins':
                    acc.violation('builtin-shadowing', f'{alias}: global->{r1!r} local->{r2!r}', {'alias': alias})
                # ... also when the binding is null (a host disabling the name, a script doing `round = null`) or not a function
                for where, kw in (('global', {'globals': {**g, alias: None}}), ('local', {'globals': dict(g)})):
                    try:
                        r3 = evaluate_expression(expr, kw, {alias: None} if where == 'local' else None, True)
                        acc.violation('builtin-wins-over-null-binding', f'{alias} bound to null in {where}s: {r3!r} instead of an undefined-function error', {'alias': alias})
                    except rt_err:
                        acc.count('shadow_checks')
                r4 = evaluate_expression(expr, {'globals': {**g, alias: 'text'}}, None, True)
                acc.count('shadow_checks')
                if r4 is not None and alias != 'if':
                    acc.violation('builtin-wins-over-non-function-binding', f'{alias} bound to a string: {r4!r}', {'alias': alias})
    # the keywords true / false / null are literals: a variable of that name (a host global, a parameter, an assignment `true = 0` the
    # parser accepts) never changes what the literal means - in either mode, before and after such a binding exists
    V = lambda n: {'variable': n}  # noqa: E731
    kw_exprs = [V('true'), V('false'), V('null'), {'function': {'name': 'if', 'args': [V('true'), {'string': 'yes'}, {'string': 'no'}]}},
                {'binary': {'op': '+', 'left': V('null'), 'right': {'number': 1.0}}}, {'unary': {'op': '!', 'expr': V('false')}},
                {'binary': {'op': '&&', 'left': V('true'), 'right': V('kept')}}, {'binary': {'op': '==', 'left': V('null'), 'right': V('missing')}},
                {'function': {'name': 'if', 'args': [V('false'), {'number': 1.0}, V('null')]}}]
    pollution = {'true': 0, 'false': 1, 'null': 5}
    for e in kw_exprs:
        for builtins in (True, False):
            base_v = evaluate_expression(e, {'globals': {'kept': 'kept'}}, None, builtins)
            for where, gl, lc in (('globals', dict(pollution, kept='kept'), None), ('locals', {'kept': 'kept'}, dict(pollution)), ('both', dict(pollution, kept='kept'), dict(pollution))):
                acc.count('keyword_shadowing_checks')
                got = evaluate_expression(e, {'globals': gl}, lc, builtins)
                if not same_value(got, base_v):
                    acc.violation('keyword-changed-by-a-variable', f'{json.dumps(e)} = {got!r} with variables named true/false/null in {where}; {base_v!r} without', {'alias': 'keywords'})
    acc.case(('keywords',), True)
    # a call expression without the optional args member (models built by programs): every such call has its own empty argument list,
    # whatever earlier calls of this process did with theirs
    for rep in range(3):
        for builtins in (True, False):
            gl = dict(lib)
            r1 = evaluate_expression({'function': {'name': 'arrayNew'}}, {'globals': gl}, None, builtins)
            lib['arrayPush']([r1, 'left over', rep], None) if isinstance(r1, list) else None
            r2 = evaluate_expression({'function': {'name': 'arrayNew'}}, {'globals': gl}, None, builtins)
            r3 = evaluate_expression({'function': {'name': 'stringFromCharCode'}}, {'globals': gl}, None, builtins)
            r4 = evaluate_expression({'function': {'name': 'arrayNew', 'args': []}}, {'globals': gl}, None, builtins)
            got_args = []
            evaluate_expression({'function': {'name': 'probe'}}, {'globals': {'probe': lambda a, o: got_args.append(list(a))}}, None, builtins)
            acc.count('no_args_member_calls', 5)
            if r2 != [] or r2 is r1 or r3 != '' or r4 != [] or got_args != [[]]:
                acc.violation('call-without-args-sees-earlier-calls', f'after pushing to the result of arrayNew() (model without args): arrayNew() = {r2!r}, stringFromCharCode() = {r3!r}, arrayNew() with args [] = {r4!r}, a host function received {got_args!r}', {'alias': 'no-args-member'})
                break
    acc.sample({'alias_table_checked': dict(list(sorted(ALIASES.items()))[:6])}, limit=1)


def run_shard(spec, acc):
    api = _api()
    if spec['part'] == 'matrix':
        run_matrix(spec, acc, api)
    elif spec['part'] == 'trees':
        run_trees(spec, acc, api)
    else:
        run_alias(spec, acc, api)


def replay(spec, acc):
    api = _api()
    case = spec['case']
    if 'alias' in case:
        acc.note_inconclusive('alias cases are replayed by re-running the alias part: ./check C03 quick')
        return
    g = refval.dec(case['globals'])
    g.update({'hp': gen_prog.host_hp, 'h2': host_h2})
    eval_both(case['expr'], g, acc, api, kind='replay')
    acc.case(json.dumps(case['expr']), True)
