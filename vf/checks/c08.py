"""C08 - jump-level models execute by the documented statement semantics.
Oracle: RefVM; monitors: FrozenModel mutation sanitizer, WatchedOptions (statement counter), log recorder."""
import copy
import datetime
import itertools
import json
import random
import re

from .. import core, gen_prog, refval
from ..monitors import FrozenDict, FrozenList, ModelMutated, WatchedOptions, freeze
from ..refast import pp
from ..refeval import Domain, RefRuntimeError, Unspecified
from ..refvm import RefVM


def N(x):
    return {'number': float(x)}


def V(n):
    return {'variable': n}


LOG = {'expr': {'expr': {'function': {'name': 'systemLog', 'args': [{'binary': {'op': '+', 'left': {'string': 'n='}, 'right': V('n')}}]}}}}
ALPHA = [
    LOG,
    {'expr': {'name': 'n', 'expr': {'binary': {'op': '+', 'left': V('n'), 'right': N(1)}}}},
    {'expr': {'name': 'c', 'expr': {'unary': {'op': '!', 'expr': V('c')}}}},
    {'jump': {'label': 'A'}}, {'jump': {'label': 'B'}},
    {'jump': {'label': 'A', 'expr': V('c')}}, {'jump': {'label': 'B', 'expr': V('c')}},
    {'jump': {'label': 'A', 'expr': {'binary': {'op': '<', 'left': V('n'), 'right': N(3)}}}},
    {'label': 'A'}, {'label': 'B'},
    {'return': {}}, {'return': {'expr': V('n')}},
    {'expr': {'expr': {'function': {'name': 'ff', 'args': []}}}},
]
ALPHA_NAMES = ['log', 'n+=1', 'c=!c', 'jump A', 'jump B', 'jumpif(c) A', 'jumpif(c) B', 'jumpif(n<3) A', 'A:', 'B:', 'return', 'return n', 'ff()']
FBODIES = [
    [LOG, {'return': {'expr': N(7)}}],
    [{'jump': {'label': 'A'}}, LOG, {'label': 'A'}, {'expr': {'name': 'n', 'expr': N(5)}},
     {'expr': {'expr': {'function': {'name': 'systemGlobalSet', 'args': [{'string': 'c'}, V('true')]}}}}],
    [{'jump': {'label': 'B'}}],
    None,  # no definition: the call raises Undefined function "ff"
]


def plan(tier, seed):
    specs = []
    if tier == 'quick':
        for sh in range(8):
            specs.append({'part': 'exhaustive', 'maxlen': 4, 'mod': 8, 'rem': sh})
        for sh in range(8):
            specs.append({'part': 'random', 'n': 1500, 'shard': sh})
    else:
        for sh in range(32):
            specs.append({'part': 'exhaustive', 'maxlen': 6, 'mod': 32, 'rem': sh, 'timeout': 3000})
        for sh in range(16):
            specs.append({'part': 'random', 'n': 40000, 'shard': sh})
    return specs


def meta(tier):
    k = 4 if tier == 'quick' else 6
    total = sum(len(ALPHA) ** i for i in range(1, k + 1)) * len(FBODIES)
    return {
        'level': 'exploration',
        'rule': (f'(a) every statement list of length 1..{k} over the 13-statement alphabet {ALPHA_NAMES} combined with 4 function '
                 f'configurations (3 bodies with their own labels, or no definition) = {total} models, each executed under budget 40 '
                 'on a frozen (mutation-sanitizing) model and again on a plain copy, against RefVM; (b) seeded random models up to '
                 '40 statements with 4 labels, duplicate labels, dangling jumps, parameterised functions (re-defined under the same names; function statements nested inside function bodies), plus parsed '
                 'structured programs run against the jump-level reading; every random model is also run with ONE options dict shared by all models of the shard. Non-trivial: the model has a jump and a label, or a function call; '
                 'distinct = distinct model.'),
        'exhaustive': True,
        'extra': {'exhaustive_part': f'{total} models (length <= {k})'},
        'assumptions': ['one-level functions; every call carries an args list', 'RefVM evaluates expressions with RefEval (independent of the real evaluator)'],
    }


def _api():
    import bare_script
    from bare_script.library import SCRIPT_FUNCTIONS
    from bare_script.runtime import BareScriptRuntimeError
    return bare_script, SCRIPT_FUNCTIONS, BareScriptRuntimeError


def user(g, lib):
    return {k: refval.canon(v) for k, v in g.items() if k not in lib}


def run_real(model, init, limit, api, watched=True, reuse=None):
    bare_script, lib, rt_err = api
    logs = []
    g = copy.deepcopy(init)
    if reuse is not None:
        # the SAME options dict object as for earlier, different models (fresh globals): nothing may be remembered in it
        o = reuse
        o.update({'globals': g, 'logFn': logs.append, 'maxStatements': limit})
    else:
        o = WatchedOptions({'globals': g, 'logFn': logs.append, 'maxStatements': limit}) if watched else \
            {'globals': g, 'logFn': logs.append, 'maxStatements': limit}
    try:
        r = ('ok', refval.canon(bare_script.execute_script(model, o)))
    except rt_err as exc:
        r = ('err', refval.norm_error(str(exc)))
    except ModelMutated as exc:
        r = ('mutated', str(exc))
    return r, logs, user(g, lib), o.get('statementCount')


def run_ref(model, init, limit, lib, **kw):
    g = copy.deepcopy(init)
    vm = RefVM(g, lib, limit=limit, **kw)
    try:
        r = ('ok', refval.canon(vm.run(model)))
    except (Domain, Unspecified):
        return None  # the reference leaves the result open (arithmetic domain error, single-statement resource exhaustion)
    except RefRuntimeError as exc:
        r = ('err', refval.norm_error(str(exc)))
    return r, vm.logs, user(g, lib), vm.clock


def check_model(frozen, plain, init, limit, acc, api, case_fn, reuse=None):
    bare_script, lib, rt_err = api
    before = json.dumps(plain, sort_keys=True)
    b = run_ref(plain, init, limit, lib)  # reference first: it is bounded, and cases it leaves open are not run at all
    if b is None:
        acc.count('skipped_unspecified_by_reference')
        return True
    a = run_real(frozen, init, limit, api)
    a2 = run_real(plain, init, limit, api, watched=False)
    if a[0][0] == 'mutated':
        acc.violation('model-mutated', a[0][1], case_fn())
        return False
    if json.dumps(plain, sort_keys=True) != before:
        acc.violation('model-changed', before[:300], case_fn())
        return False
    if a != b:
        b14 = run_ref(plain, init, limit, lib, bool_num=True)
        if b14 is None or a == b14:
            acc.known_finding('F14', json.dumps(plain)[:200])
            return True
        which = [n for n, x, y in zip(('result', 'logs', 'globals', 'statement-count'), a, b) if x != y]
        acc.violation('differs-from-jump-level-semantics:' + ','.join(which), f'real={a!r:.500} ref={b!r:.500} model={json.dumps(plain)[:600]}', case_fn())
        return False
    if a2 != a:
        acc.violation('second-run-differs', f'first={a!r:.400} second={a2!r:.400} model={json.dumps(plain)[:500]}', case_fn())
        return False
    if reuse is not None:
        a3 = run_real(plain, init, limit, api, reuse=reuse)
        acc.count('reused_options_runs')
        if a3 != a:
            acc.violation('run-depends-on-earlier-models', f'with an options dict that earlier executed other models: {a3!r:.400}; fresh options: {a!r:.400} model={json.dumps(plain)[:500]}', case_fn())
            return False
    return True


def run_exhaustive(spec, acc, api):
    fz = [freeze(s) for s in ALPHA]
    init = {'n': 0, 'c': False}
    ix = 0
    for fb, body in enumerate(FBODIES):
        fdef = {'function': {'name': 'ff', 'statements': body}} if body is not None else None
        ffz = freeze(fdef) if fdef else None
        for k in range(1, spec['maxlen'] + 1):
            for combo in itertools.product(range(len(ALPHA)), repeat=k):
                ix += 1
                if ix % spec['mod'] != spec['rem']:
                    continue
                plain = {'statements': ([fdef] if fdef else []) + [ALPHA[i] for i in combo]}
                frozen = FrozenDict({'statements': FrozenList(([ffz] if ffz else []) + [fz[i] for i in combo])})
                ok = check_model(frozen, plain, init, 40, acc, api, lambda: {'model': plain, 'init': {'n': 0, 'c': False}, 'limit': 40})
                has_jump = any(3 <= i <= 7 for i in combo)
                has_label = any(i in (8, 9) for i in combo)
                acc.case((fb, combo), (has_jump and has_label) or 12 in combo)
                if ok and len(acc.samples) < 2 and has_jump and has_label and k >= 4:
                    acc.sample({'function_body': fb, 'statements': [ALPHA_NAMES[i] for i in combo]})
    acc.count('models_checked', acc.evaluations)


LABELS = ['A', 'B', 'C', 'D']


def rand_expr(rnd, names):
    x = rnd.random()
    if x < 0.3:
        return N(rnd.randint(0, 5))
    if x < 0.6:
        return V(rnd.choice(names))
    if x < 0.8:
        return {'binary': {'op': rnd.choice(['+', '-', '<', '==', '&&', '||', '*']), 'left': V(rnd.choice(names)), 'right': N(rnd.randint(0, 4))}}
    if x < 0.9:
        return {'unary': {'op': '!', 'expr': V(rnd.choice(names))}}
    if x < 0.93:
        # the if special form with one, two or three arguments (a missing branch is null); evaluation leaves the model as it was
        return {'function': {'name': 'if', 'args': [V(rnd.choice(names))] + [N(rnd.randint(1, 9)) for _ in range(rnd.randint(0, 2))]}}
    if x < 0.96:
        # the arguments of a call are evaluated BEFORE the callee is looked up: an argument may log, change a global array or (through a
        # function that executes a function statement) re-bind the callee; an undefined callee fails after its arguments ran
        side = rnd.choice([{'function': {'name': 'arrayPush', 'args': [V(rnd.choice(names)), N(7)]}}, {'function': {'name': rnd.choice(['f1', 'f2', 'f3']), 'args': []}},
                           {'function': {'name': 'systemLog', 'args': [{'string': 'argument evaluated'}]}}])
        return {'function': {'name': rnd.choice(['f1', 'f2', 'f3', 'noSuchFunction', 'm']), 'args': [side]}}
    # (len / abs / max are expression-only aliases: undefined functions inside a script)
    fname = rnd.choice(['f1', 'f2', 'mathAbs', 'f3', 'len', 'abs', 'max', 'arrayPush', 'arrayLength', 'arrayPush'])
    if fname == 'arrayPush':
        # (mutates its first argument when that is an array - e.g. the rest array of a "..." function; never pushes an array into itself)
        return {'function': {'name': fname, 'args': [V(rnd.choice(names)), N(rnd.randint(0, 9))]}}
    nargs = rnd.randint(0, 2)
    if nargs == 0 and rnd.random() < 0.5:
        return {'function': {'name': fname}}  # the `args` member is optional in the model: a call without arguments
    return {'function': {'name': fname, 'args': [V(rnd.choice(names))] * nargs}}


def rand_stmts(rnd, n, names, infunc, nested=False):
    out = []
    for _ in range(n):
        x = rnd.random()
        if nested and infunc == 1 and 0.83 <= x < 0.9:
            # a function statement inside a function body (schema-valid, only reachable with hand-built models): it binds a
            # GLOBAL function when it executes, also replacing an earlier definition of that name
            f = {'name': rnd.choice(['f1', 'f2', 'f3']), 'statements': rand_stmts(rnd, rnd.randint(0, 4), ['x', 'y', 'n', 'm'], 2)}
            if rnd.random() < 0.5:
                f['args'] = ['x']
            out.append({'function': f})
            continue
        if x < 0.2:
            out.append({'expr': {'expr': {'function': {'name': 'systemLog', 'args': [{'binary': {'op': '+', 'left': {'string': 'v='}, 'right': rand_expr(rnd, names)}}]}}}})
        elif x < 0.45:
            out.append({'expr': {'name': rnd.choice(names), 'expr': rand_expr(rnd, names)}})
        elif x < 0.6:
            out.append({'jump': {'label': rnd.choice(LABELS)}} if rnd.random() < 0.35 else
                       {'jump': {'label': rnd.choice(LABELS), 'expr': rand_expr(rnd, names)}})
        elif x < 0.78:
            out.append({'label': rnd.choice(LABELS)})
        elif x < 0.83:
            out.append({'return': {'expr': rand_expr(rnd, names)}} if rnd.random() < 0.7 else {'return': {}})
        elif x < 0.9 and not infunc:
            args = rnd.sample(['x', 'y', 'n'], rnd.randint(0, 2))
            f = {'name': rnd.choice(['f1', 'f2']), 'statements': rand_stmts(rnd, rnd.randint(0, 8), ['x', 'y', 'n', 'm'], 1, nested)}
            if args:
                if rnd.random() < 0.12:
                    args = args + [args[0]]  # a repeated parameter name (lint warns, the model is valid): the LAST occurrence decides - null when no argument reaches it
                f['args'] = args
                if rnd.random() < 0.2:
                    f['lastArgArray'] = True
                elif rnd.random() < 0.15:
                    f['lastArgArray'] = False  # the optional flag spelled out: an ordinary parameter list
            out.append({'function': f})
        else:
            out.append({'expr': {'name': rnd.choice(names), 'expr': {'binary': {'op': '+', 'left': V('n'), 'right': N(1)}}}})
    return out


TRUTH_VALUES = [None, True, False, 0, 0.0, -0.0, 1, 0.5, '', 'a', '0', 'false', [], [0], [[]], {}, {'a': None}, {'': 0},
                datetime.datetime(1970, 1, 1), datetime.date(1970, 1, 1), datetime.datetime(1970, 1, 1, tzinfo=datetime.timezone.utc), re.compile('')]


def run_truthiness(acc, api):
    """Directed: a conditional jump on a value of every type (held in a global, in a local, produced by a call) is taken exactly
    when the value is truthy in the language."""
    for ix, v in enumerate(TRUTH_VALUES):
        for where in ('global', 'local', 'call', 'negated'):
            cond = V('c')
            if where == 'call':
                cond = {'function': {'name': 'ident', 'args': [V('c')]}}
            elif where == 'negated':
                cond = {'unary': {'op': '!', 'expr': V('c')}}
            body = [{'jump': {'label': 'A', 'expr': cond}}, {'expr': {'expr': {'function': {'name': 'systemLog', 'args': [{'string': 'not taken'}]}}}},
                    {'label': 'A'}, {'expr': {'expr': {'function': {'name': 'systemLog', 'args': [{'string': 'end'}]}}}}, {'return': {'expr': V('c')}}]
            ident = {'function': {'name': 'ident', 'args': ['x'], 'statements': [{'return': {'expr': V('x')}}]}}
            if where == 'local':
                plain = {'statements': [{'function': {'name': 'ff', 'args': ['c'], 'statements': body}},
                                        {'return': {'expr': {'function': {'name': 'ff', 'args': [V('g')]}}}}]}
                init = {'g': copy.deepcopy(v), 'c': 'global-c'}
            else:
                plain = {'statements': [ident] + body}
                init = {'c': copy.deepcopy(v)}
            check_model(freeze(plain), plain, init, 100, acc, api, lambda: {'model': plain, 'init': refval.enc(init), 'limit': 100})
            acc.case(('truthiness', ix, where), True)
            acc.count('truthiness_jumps')
            acc.cover('jump_condition_types', refval.rtype(v))


def run_rest_arrays(acc, api):
    """Directed: every call of a function with a "..." parameter gets its OWN array (empty when no rest argument is passed), however
    earlier calls - of this run or of an earlier execution of the same model - changed theirs."""
    def call(name, *args):
        return {'function': {'name': name, 'args': list(args)}}
    log = lambda e: {'expr': {'expr': call('systemLog', {'binary': {'op': '+', 'left': {'string': 'r='}, 'right': call('jsonStringify', e)}})}}  # noqa: E731
    for params, nargs in ((['rest'], 0), (['a', 'rest'], 1), (['a', 'rest'], 0), (['a', 'b', 'rest'], 1), (['rest'], 2)):
        for mut in (call('arrayPush', V('rest'), N(7)), call('arraySet', V('rest'), N(0), N(9)), call('arrayExtend', V('rest'), call('arrayNew', N(1), N(2)))):
            fdef = {'function': {'name': 'ff', 'args': params, 'lastArgArray': True, 'statements': [
                {'expr': {'expr': mut}}, {'return': {'expr': call('arrayNew', call('arrayLength', V('rest')), V('rest'))}}]}}
            args = [N(k + 1) for k in range(nargs)]
            plain = {'statements': [fdef, log(call('ff', *args)), log(call('ff', *args)), {'expr': {'name': 'keep', 'expr': call('ff', *args)}}, log(call('ff', *args)), {'return': {'expr': V('keep')}}]}
            for rep in range(2):
                check_model(freeze(plain), plain, {}, 200, acc, api, lambda: {'model': plain, 'init': {}, 'limit': 200})
            acc.case(('rest-array', tuple(params), nargs, json.dumps(mut)), True)
            acc.count('rest_array_models')


def run_call_order(acc, api):
    """Directed: arguments first, callee second - `ff(gg())` where gg() executes a function statement that re-binds ff calls the NEW ff;
    a callee that is undefined (or null) fails only after its arguments were evaluated (their log lines and writes are there)."""
    def call(name, *args):
        return {'function': {'name': name, 'args': list(args)}}
    log = lambda e: {'expr': {'expr': call('systemLog', {'binary': {'op': '+', 'left': {'string': 'r='}, 'right': call('jsonStringify', e)}})}}  # noqa: E731
    ret = lambda v: {'return': {'expr': {'string': v}}}  # noqa: E731
    rebinder = {'function': {'name': 'gg', 'statements': [{'function': {'name': 'ff', 'args': ['x'], 'statements': [ret('new ff')]}}, ret('gg ran')]}}
    old = {'function': {'name': 'ff', 'args': ['x'], 'statements': [ret('old ff')]}}
    models = [
        {'statements': [old, rebinder, log(call('ff', call('gg'))), log(call('ff', N(1)))]},
        {'statements': [rebinder, log(call('ff', call('gg')))]},
        {'statements': [old, rebinder, {'expr': {'name': 'ff2', 'expr': V('ff')}}, log(call('ff2', call('gg'))), log(call('ff', N(0)))]},
        {'statements': [log({'string': 'start'}), {'expr': {'name': 'arr', 'expr': call('arrayNew')}}, log(call('noSuch', call('arrayPush', V('arr'), N(1)), call('systemLog', {'string': 'second argument'})))]},
        {'statements': [{'expr': {'name': 'nul', 'expr': V('null')}}, log(call('nul', call('systemLog', {'string': 'argument of a null callee'})))]},
        {'statements': [old, {'function': {'name': 'hh', 'statements': [{'expr': {'expr': call('systemGlobalSet', {'string': 'ff'}, V('null'))}}, ret('hh ran')]}}, log(call('ff', call('hh')))]},
        {'statements': [{'jump': {'label': 'L', 'expr': call('if', V('null'))}}, {'jump': {'label': 'L', 'expr': call('if', N(1), N(0))}}, log(call('if', N(1))), log(call('if', N(0), N(5))), {'label': 'L'},
                        {'function': {'name': 'kk', 'statements': [{'return': {'expr': call('if', V('null'), N(1))}}]}}, log(call('kk')), log(call('kk'))]},
    ]
    # a repeated parameter name: parameters are bound one by one in order, so the LAST occurrence decides (null when no argument reaches it)
    dup = {'function': {'name': 'pick', 'args': ['a', 'b', 'a'], 'statements': [{'return': {'expr': call('arrayNew', V('a'), V('b'))}}]}}
    dup_rest = {'function': {'name': 'pickr', 'args': ['a', 'b', 'a'], 'lastArgArray': True, 'statements': [{'return': {'expr': call('arrayNew', V('a'), V('b'))}}]}}
    models.append({'statements': [dup, dup_rest, log(call('pick', N(1), N(2))), log(call('pick', N(1), N(2), N(3))), log(call('pick', N(1))), log(call('pick')),
                                  log(call('pickr', N(1), N(2))), log(call('pickr', N(1), N(2), N(3), N(4))), log(call('pickr', N(1)))]})
    for plain in models:
        for rep in range(2):
            check_model(freeze(plain), plain, {}, 300, acc, api, lambda: {'model': plain, 'init': {}, 'limit': 300})
        acc.case(('call-order', json.dumps(plain)), True)
        acc.count('call_order_models')


def run_two_runs(acc, api):
    """Directed history: a function bound by one execute_script call is called by a LATER call on the same globals with its own options
    object - it logs to, counts against and reads the globals of the run that calls it."""
    bare_script, lib, rt_err = api

    def call(name, *args):
        return {'function': {'name': name, 'args': list(args)}}
    define = {'statements': [{'function': {'name': 'ff', 'args': ['x'], 'statements': [
        {'expr': {'expr': call('systemLog', {'binary': {'op': '+', 'left': {'string': 'in ff '}, 'right': V('who')}})}},
        {'expr': {'name': 'seen', 'expr': V('x')}}, {'expr': {'expr': call('systemGlobalSet', {'string': 'last'}, V('x'))}}, {'return': {'expr': {'binary': {'op': '+', 'left': V('x'), 'right': N(1)}}}}]}}]}
    use = {'statements': [{'expr': {'name': 'who', 'expr': {'string': 'second run'}}}, {'expr': {'name': 'r1', 'expr': call('ff', N(1))}}, {'expr': {'name': 'r2', 'expr': call('ff', N(2))}},
                          {'return': {'expr': call('arrayNew', V('r1'), V('r2'), V('last'))}}]}
    for shared_globals in (True, False):
        g1 = {'who': 'first run'}
        logs1, logs2 = [], []
        o1 = {'globals': g1, 'logFn': logs1.append, 'maxStatements': 100}
        bare_script.execute_script(define, o1)
        count1 = o1.get('statementCount')
        g2 = g1 if shared_globals else dict(g1)
        o2 = {'globals': g2, 'logFn': logs2.append, 'maxStatements': 100}
        res = bare_script.execute_script(use, o2)
        acc.case(('two-runs', shared_globals), True)
        acc.count('two_run_histories')
        problems = []
        if res != [2, 3, 2]:
            problems.append(f'result {res!r}')
        if logs1 or logs2 != ['in ff second run', 'in ff second run']:
            problems.append(f'log of the defining run {logs1!r}, log of the calling run {logs2!r}')
        if o1.get('statementCount') != count1 or o2.get('statementCount') != 12:
            problems.append(f'statement counts: defining run {count1} -> {o1.get("statementCount")}, calling run {o2.get("statementCount")} (12 statements start in it)')
        if g2.get('last') != 2 or (not shared_globals and 'last' in g1):
            problems.append(f'globals written: calling run last={g2.get("last")!r}, defining run has last: {"last" in g1}')
        if problems:
            acc.violation('function-runs-under-the-options-of-its-defining-run', '; '.join(problems) + f' (globals shared: {shared_globals})', {'history': 'two-runs', 'shared': shared_globals})


def run_random(spec, acc, api):
    bare_script, lib, rt_err = api
    base = spec['seed'] * 1000003 + spec['shard'] * 7919 + 23
    shared = {}
    if spec['shard'] == 0:
        run_truthiness(acc, api)
        run_rest_arrays(acc, api)
        run_call_order(acc, api)
        run_two_runs(acc, api)
    for i in range(spec['n']):
        rnd = random.Random(base + i)
        if rnd.random() < 0.8:
            plain = {'statements': rand_stmts(rnd, rnd.randint(1, 40), ['n', 'm', 'c'], False, nested=rnd.random() < 0.4)}
            init = {'n': 0, 'm': rnd.choice([0, 2, 'a', None]), 'c': rnd.choice([False, True, 0, 1])}
            if rnd.random() < 0.3:
                # conditions of every value type: the truthiness of the language, not of the host language, decides a jump
                init['c'] = copy.deepcopy(rnd.choice(TRUTH_VALUES))
                init['m'] = copy.deepcopy(rnd.choice(TRUTH_VALUES))
        else:
            gen = gen_prog.ProgGen(rnd, maxdepth=3, probes=False)
            text = '\n'.join(pp(gen.program()))
            plain = bare_script.parse_script(text)
            init = {v: float(rnd.randint(0, 3)) for v in gen.vars}
            acc.count('parsed_structured_programs')
        limit = rnd.choice([60, 200, 0 if False else 300])
        try:
            bare_script.validate_script(plain)
        except Exception as exc:  # pylint: disable=broad-except
            acc.note_inconclusive(f'generator produced a schema-invalid model: {exc}'[:200])
            continue
        try:
            with core.alarm(20):
                check_model(freeze(plain), plain, init, limit, acc, api, lambda: {'model': plain, 'init': refval.enc(init), 'limit': limit}, reuse=shared)
        except core.CaseTimeout:
            acc.timeouts += 1
        txt = json.dumps(plain, sort_keys=True)
        acc.case(txt, '"jump"' in txt and '"label"' in txt)
        if len(acc.samples) < 1 and '"jump"' in txt:
            acc.sample({'model': plain if len(txt) < 1500 else txt[:1500]})


def run_shard(spec, acc):
    api = _api()
    from .. import exec_prog
    acc.count('prior_runs_without_globals', exec_prog.prior_runs())
    if spec['part'] == 'exhaustive':
        run_exhaustive(spec, acc, api)
    else:
        run_random(spec, acc, api)


def replay(spec, acc):
    api = _api()
    case = spec['case']
    if 'model' not in case:
        acc.note_inconclusive('finding-level replay entry')
        return
    init = refval.dec(case['init']) if isinstance(case['init'], dict) and '$obj' in case['init'] else case['init']
    check_model(freeze(case['model']), case['model'], init, case['limit'], acc, api, lambda: case)
    acc.case(json.dumps(case['model'], sort_keys=True), True)
