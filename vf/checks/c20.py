"""C20 - diffLines from the shipped include library reconstructs both inputs; shipped includes are clean.
Oracle: reconstruction (Identical+Remove = left, Identical+Add = right); executed through execute_script with the
CLI's own system-include fetcher."""
import glob
import itertools
import os
import random

from .. import core


def plan(tier, seed):
    specs = [{'part': 'shipped'}]
    if tier == 'quick':
        for sh in range(8):
            specs.append({'part': 'exhaustive', 'maxlen': 4, 'mod': 8, 'rem': sh})
        for sh in range(4):
            specs.append({'part': 'random', 'n': 2000, 'shard': sh})
    else:
        for sh in range(32):
            specs.append({'part': 'exhaustive', 'maxlen': 6, 'mod': 32, 'rem': sh, 'timeout': 3500})
        for sh in range(16):
            specs.append({'part': 'random', 'n': 6000, 'shard': sh})
    return specs


def meta(tier):
    k = 4 if tier == 'quick' else 6
    n = sum(3 ** i for i in range(0, k + 1))
    return {
        'level': 'exploration',
        'rule': (f'all ordered pairs of line lists of length <= {k} over the alphabet {{a, b, c}} ({n} lists, {n * n} pairs) passed as arrays; '
                 'seeded random pairs up to 40 lines passed as arrays, as LF-joined, CRLF-joined and mixed LF/CRLF strings, as one array and one string, as arrays whose elements hold several lines, and as arrays with CR-ending elements (with edits: '
                 'insert/delete/replace/duplicate/move). diffLines is loaded once per process with include <diff.bare> through the CLI\'s '
                 'system-include fetcher and called through its global binding. Every shipped include must parse, validate and lint '
                 'clean. Non-trivial: left != right and both non-empty; distinct = distinct (left, right, form).'),
        'exhaustive': True,
        'extra': {'exhaustive_part': f'all {n * n} pairs of line lists of length <= {k} over 3 letters'},
        'assumptions': ['adjacent blocks of the same type and minimality of the diff are not asserted (the statement fixes reconstruction only)'],
    }


def _api():
    import bare_script
    from bare_script import bare
    from bare_script.model import lint_script, validate_script
    return bare_script, bare, lint_script, validate_script


def load_diff(api, how='top-level'):
    bare_script, bare, _, _ = api
    g = {}
    options = {'globals': g, 'fetchFn': bare._fetch_include, 'systemPrefix': bare._FETCH_INCLUDE_PREFIX, 'maxStatements': 0, 'logFn': None}  # pylint: disable=protected-access
    text = {'top-level': 'include <diff.bare>',
            # lazy loading: the include statement sits in a function body (it still runs in global scope)
            'in-function': "function loadDiff(left, right, lines):\n    include <diff.bare>\n    return 1\nendfunction\nloadDiff('x', 'y', 'z')",
            'in-loop': "for left in arrayNew(1):\n    if left:\n        include <diff.bare>\n    endif\nendfor"}[how]
    bare_script.execute_script(bare_script.parse_script(text), options)
    fn = g.get('diffLines')
    return fn, options


def chunked(lines, rnd):
    out = []
    i = 0
    while i < len(lines):
        k = rnd.randint(1, 3)
        part = lines[i:i + k]
        out.append(''.join(ln + (rnd.choice(['\n', '\r\n']) if j < len(part) - 1 else '') for j, ln in enumerate(part)))
        i += k
    return out


def check_pair(left, right, form, fn, options, acc, chunk_seed=0, objects=None):
    case = {'left': left, 'right': right, 'form': form, 'chunk_seed': chunk_seed}
    if form == 'chunks':
        r = random.Random(chunk_seed)
        a, b = chunked(left, r), chunked(right, r)
    elif form == 'mixed':
        # ONE text that mixes both line-end styles (a Unix file with lines pasted from a Windows editor)
        r = random.Random(chunk_seed)

        def mix(lines):
            return ''.join(ln + (r.choice(['\n', '\r\n']) if i < len(lines) - 1 else '') for i, ln in enumerate(lines))
        a, b = mix(left), mix(right)
        if not left:
            left = ['']
        if not right:
            right = ['']
    elif form == 'array-again':
        a, b = objects  # the very objects of the earlier call, edited in place since
    elif form == 'array':
        a, b = list(left), list(right)
    elif form in ('array-str', 'str-array'):
        # one side an array of lines, the other an LF-joined string
        a = list(left) if form == 'array-str' else '\n'.join(left)
        b = '\n'.join(right) if form == 'array-str' else list(right)
        if form == 'array-str' and not right:
            right = ['']
        if form == 'str-array' and not left:
            left = ['']
    else:
        eol = '\n' if form == 'lf' else '\r\n'
        a, b = eol.join(left), eol.join(right)
        if not left:
            left = ['']
        if not right:
            right = ['']
    acc.case((tuple(left), tuple(right), form), left != right and bool(left) and bool(right))
    try:
        with core.alarm(30):
            res = fn([a, b], options)
    except core.CaseTimeout:
        acc.timeouts += 1
        return
    except Exception as exc:  # pylint: disable=broad-except
        acc.violation('diffLines-raised', f'{type(exc).__name__}: {exc} for {left!r} / {right!r}', case)
        return
    if not isinstance(res, list):
        acc.violation('result-not-a-list', f'{res!r} for {left!r} / {right!r}', case)
        return
    rec_l, rec_r = [], []
    for blk in res:
        if not isinstance(blk, dict) or blk.get('type') not in ('Identical', 'Add', 'Remove') or not isinstance(blk.get('lines'), list) \
                or not blk['lines'] or not all(isinstance(x, str) for x in blk['lines']) or set(blk) != {'type', 'lines'}:
            acc.violation('malformed-block', f'{blk!r} in {res!r:.300} for {left!r} / {right!r}', case)
            return
        if blk['type'] in ('Identical', 'Remove'):
            rec_l += blk['lines']
        if blk['type'] in ('Identical', 'Add'):
            rec_r += blk['lines']
    if rec_l != list(left):
        acc.violation('left-not-reconstructed', f'{left!r} / {right!r}: Identical+Remove = {rec_l!r}; blocks {res!r:.300}', case)
        return
    if rec_r != list(right):
        acc.violation('right-not-reconstructed', f'{left!r} / {right!r}: Identical+Add = {rec_r!r}; blocks {res!r:.300}', case)
        return
    if list(left) == list(right) and any(b['type'] != 'Identical' for b in res):
        acc.violation('difference-for-identical-inputs', f'{left!r}: {res!r:.300}', case)
        return
    acc.count('reconstructions')
    acc.count('blocks_seen', len(res))
    if form == 'array' and chunk_seed and isinstance(b, list):
        # history: the caller changes the SAME array objects in place and asks again - the answer is about their present content
        r = random.Random(chunk_seed)
        for side in (b, a):
            op = r.random()
            if op < 0.4 or not side:
                side.insert(r.randint(0, len(side)), r.choice(['edited', 'zz', '']))
            elif op < 0.7:
                side[r.randrange(len(side))] = 'changed'
            else:
                del side[r.randrange(len(side))]
        acc.count('same_objects_after_in_place_edit')
        check_pair(list(a), list(b), 'array-again', fn, options, acc, chunk_seed=0, objects=(a, b))


def all_lists(maxlen):
    for k in range(0, maxlen + 1):
        for t in itertools.product('abc', repeat=k):
            yield list(t)


def run_shard(spec, acc):
    api = _api()
    bare_script, bare, lint_script, validate_script = api
    if spec['part'] == 'shipped':
        files = sorted(glob.glob(os.path.join(core.REPO_SRC, 'bare_script', 'include', '*.bare')))
        if not files:
            acc.note_inconclusive('no shipped include scripts found')
        for f in files:
            name = os.path.basename(f)
            acc.case(name, True)
            acc.cover('shipped_scripts', name)
            try:
                with open(f, 'r', encoding='utf-8') as fh:
                    m = bare_script.parse_script(fh.read())
                validate_script(m)
                w = lint_script(m)
            except Exception as exc:  # pylint: disable=broad-except
                acc.violation('shipped-include-broken', f'{name}: {type(exc).__name__}: {exc}', {'file': name})
                continue
            if w:
                acc.violation('shipped-include-lint', f'{name}: {w}', {'file': name})
            # every shipped include also loads through the CLI fetcher without a runtime error
            try:
                g = {}
                bare_script.execute_script(bare_script.parse_script(f'include <{name}>'),
                                           {'globals': g, 'fetchFn': bare._fetch_include, 'systemPrefix': bare._FETCH_INCLUDE_PREFIX, 'logFn': None})  # pylint: disable=protected-access
                acc.count('includes_loaded')
            except Exception as exc:  # pylint: disable=broad-except
                acc.violation('shipped-include-load', f'{name}: {type(exc).__name__}: {exc}', {'file': name})
        acc.sample({'shipped': [os.path.basename(f) for f in files]}, limit=1)
        return
    fn, options = load_diff(api)
    if fn is None:
        acc.violation('diffLines-not-defined', 'include <diff.bare> did not bind diffLines', {})
        return
    # history: the host keeps ONE options object and gives every run fresh globals - the library is loaded again into them
    for k in range(2):
        g_next = {}
        options_r = dict(options) if k else options
        options_r['globals'] = g_next
        try:
            bare_script.execute_script(bare_script.parse_script("include <diff.bare>\nreturn diffLines(arrayNew('a', 'b'), arrayNew('a', 'c'))"), options_r)
        except Exception as exc:  # pylint: disable=broad-except
            acc.violation('library-not-loaded-again', f'run {k + 2} on the reused options with fresh globals: {type(exc).__name__}: {exc}', {'history': 'options-reuse'})
            return
        fn_next = g_next.get('diffLines')
        acc.case(('options-reuse', k), True)
        if fn_next is None:
            acc.violation('library-not-loaded-again', f'run {k + 2} on the reused options with fresh globals did not bind diffLines', {'history': 'options-reuse'})
            return
        check_pair(['a', 'b', 'c'], ['a', 'x', 'c', 'd'], 'array', fn_next, options_r, acc)
    # history: a host keeps ONE globals object (the library loads once) and runs many scripts on it, each run with its own options and
    # the same finite statement budget - every run is charged to its own budget only
    probe = {'globals': {}, 'fetchFn': bare._fetch_include, 'systemPrefix': bare._FETCH_INCLUDE_PREFIX, 'maxStatements': 0}  # pylint: disable=protected-access
    text_h = "include <diff.bare>\nreturn diffLines(arrayNew('a', 'b', 'c', 'd', 'e', 'f'), arrayNew('a', 'x', 'c', 'e', 'f', 'g', 'h'))"
    first = bare_script.execute_script(bare_script.parse_script(text_h), probe)
    budget = 3 * probe.get('statementCount', 1000)
    g_h = {}
    for k in range(9):
        o_h = {'globals': g_h, 'fetchFn': bare._fetch_include, 'systemPrefix': bare._FETCH_INCLUDE_PREFIX, 'maxStatements': budget}  # pylint: disable=protected-access
        if k % 3 == 2:
            o_h['logFn'] = (lambda m: None)
            o_h['debug'] = True
        acc.case(('same-globals-finite-budget', k), True)
        try:
            got_h = bare_script.execute_script(bare_script.parse_script(text_h), o_h)
        except Exception as exc:  # pylint: disable=broad-except
            acc.violation('run-charged-for-earlier-runs', f'run {k + 1} of the same script on the same globals, each run with its own budget of {budget} statements (one run needs {budget // 3}): {type(exc).__name__}: {exc}', {'history': 'same-globals-finite-budget'})
            return
        if got_h != first or o_h.get('statementCount', 0) > budget // 3:
            acc.violation('run-charged-for-earlier-runs', f'run {k + 1}: result {got_h!r:.200} (first run {first!r:.200}), count {o_h.get("statementCount")} vs {budget // 3} of the first run', {'history': 'same-globals-finite-budget'})
            return
        acc.count('same_globals_finite_budget_runs')
    # ... and the other way round: ONE options object (with that finite budget) serves all runs, each run on fresh globals
    o_shared = {'fetchFn': bare._fetch_include, 'systemPrefix': bare._FETCH_INCLUDE_PREFIX, 'maxStatements': budget}  # pylint: disable=protected-access
    for k in range(9):
        o_shared['globals'] = {}
        acc.case(('same-options-finite-budget', k), True)
        try:
            got_h = bare_script.execute_script(bare_script.parse_script(text_h), o_shared)
        except Exception as exc:  # pylint: disable=broad-except
            acc.violation('run-charged-for-earlier-runs', f'run {k + 1} with the same options object (budget {budget}, one run needs {budget // 3}): {type(exc).__name__}: {exc}', {'history': 'same-options-finite-budget'})
            return
        if got_h != first or o_shared.get('statementCount', 0) > budget // 3:
            acc.violation('run-charged-for-earlier-runs', f'run {k + 1} with the same options object: result {got_h!r:.200}, count {o_shared.get("statementCount")} vs {budget // 3} of the first run', {'history': 'same-options-finite-budget'})
            return
        acc.count('same_options_finite_budget_runs')
    # a late include: work done before an include statement is charged once - the same work costs the same wherever the include stands,
    # and a budget that covers the run with the include first covers it with the include last
    pair = "arrayNew('a', 'b', 'c', 'd', 'e', 'f', 'g', 'h'), arrayNew('a', 'x', 'c', 'e', 'f', 'g', 'z', 'h', 'i')"
    # (two include statements in both texts: adjacent include lines would merge into one statement)
    early = f"include <diff.bare>\nzz = 1\ninclude <unittest.bare>\nd1 = diffLines({pair})\nreturn diffLines({pair})"
    late = f"include <diff.bare>\nzz = 1\nd1 = diffLines({pair})\ninclude <unittest.bare>\nreturn diffLines({pair})"
    runs = {}
    for label, text_l in (('early', early), ('late', late)):
        o_l = {'globals': {}, 'fetchFn': bare._fetch_include, 'systemPrefix': bare._FETCH_INCLUDE_PREFIX, 'maxStatements': 0}  # pylint: disable=protected-access
        runs[label] = (bare_script.execute_script(bare_script.parse_script(text_l), o_l), o_l.get('statementCount'))
    acc.case(('late-include',), True)
    acc.count('late_include_checks')
    if runs['early'] != runs['late']:
        acc.violation('work-before-an-include-charged-twice', f'include first: count {runs["early"][1]}; include after the first diffLines call: count {runs["late"][1]} (same statements, same results: {runs["early"][0] == runs["late"][0]})', {'history': 'late-include'})
        return
    try:
        o_l = {'globals': {}, 'fetchFn': bare._fetch_include, 'systemPrefix': bare._FETCH_INCLUDE_PREFIX, 'maxStatements': runs['early'][1] + 5}  # pylint: disable=protected-access
        if bare_script.execute_script(bare_script.parse_script(late), o_l) != runs['early'][0]:
            acc.violation('work-before-an-include-charged-twice', 'late include under a budget: another result', {'history': 'late-include'})
            return
    except Exception as exc:  # pylint: disable=broad-except
        acc.violation('work-before-an-include-charged-twice', f'budget {runs["early"][1] + 5} covers the run with the include first, not with the include after the first diffLines call: {type(exc).__name__}: {exc}', {'history': 'late-include'})
        return
    # an application that includes one of its own files first and the library afterwards (separate include statements, no
    # systemPrefix: the system include resolves like a plain one - against the includer, not against the file included before)
    src = bare._fetch_include({'url': bare._FETCH_INCLUDE_PREFIX + 'diff.bare'})  # pylint: disable=protected-access
    vfiles = {'app/lib/util.bare': "utilLoaded = true", 'app/diff.bare': src, 'diff.bare': src}
    seen = []
    g_app = {}
    import functools
    from bare_script import url_file_relative
    o_app = {'globals': g_app, 'fetchFn': lambda req: seen.append(req['url']) or vfiles.get(req['url']), 'urlFn': functools.partial(url_file_relative, 'app/main.bare'), 'maxStatements': 0}
    try:
        bare_script.execute_script(bare_script.parse_script("include 'lib/util.bare'\nbetween = 1\ninclude <diff.bare>"), o_app)
    except Exception as exc:  # pylint: disable=broad-except
        acc.violation('library-not-loaded-after-another-include', f'{type(exc).__name__}: {exc}; fetched {seen!r}', {'history': 'include-after-include'})
        return
    acc.case(('include-after-include',), True)
    if seen != ['app/lib/util.bare', 'app/diff.bare'] or g_app.get('diffLines') is None:
        acc.violation('library-not-loaded-after-another-include', f'fetched {seen!r}; diffLines bound: {g_app.get("diffLines") is not None}', {'history': 'include-after-include'})
        return
    check_pair(['a', 'b'], ['b', 'c'], 'array', g_app['diffLines'], o_app, acc)
    fn, options = load_diff(api)
    if spec['part'] == 'random' or spec.get('rem', 0) % 3 == 1:
        # two shards out of three load the library lazily (include inside a function body / inside nested blocks)
        how = 'in-function' if spec.get('shard', spec.get('rem', 0)) % 2 == 0 else 'in-loop'
        fn2, options2 = load_diff(api, how)
        acc.cover('library_loaded', how)
        if fn2 is None:
            acc.violation('diffLines-not-defined', f'include <diff.bare> executed {how} did not bind diffLines globally', {'how': how})
            return
        if spec['part'] == 'exhaustive' or spec['shard'] % 2 == 1:
            fn, options = fn2, options2
    if spec['part'] == 'exhaustive':
        lists = list(all_lists(spec['maxlen']))
        ix = 0
        for left in lists:
            for right in lists:
                ix += 1
                if ix % spec['mod'] != spec['rem']:
                    continue
                check_pair(left, right, 'array', fn, options, acc)
        acc.sample({'left': ['a', 'b', 'c'], 'right': ['a', 'c', 'c'], 'form': 'array'}, limit=1)
    else:
        rnd = random.Random(spec['seed'] * 1000003 + spec['shard'] * 7919 + 113)
        words = ['a', 'b', 'c', 'd', '', 'line one', 'x = 1', '  indented', 'ü']
        for case_ix in range(spec['n']):
            left = [rnd.choice(words) for _ in range(rnd.randint(0, 40))]
            right = list(left)
            for _ in range(rnd.randint(0, 8)):
                op = rnd.random()
                if op < 0.3 and right:
                    del right[rnd.randrange(len(right))]
                elif op < 0.6:
                    right.insert(rnd.randint(0, len(right)), rnd.choice(words))
                elif op < 0.8 and right:
                    right[rnd.randrange(len(right))] = rnd.choice(words)
                elif op < 0.9 and right:
                    i = rnd.randrange(len(right))
                    right.insert(i, right[i])
                elif right:
                    i, j = rnd.randrange(len(right)), rnd.randrange(len(right))
                    right.insert(j, right.pop(i))
            if rnd.random() < 0.15:
                right = [rnd.choice(words) for _ in range(rnd.randint(0, 40))]
            form = rnd.choice(['array', 'lf', 'crlf', 'array-str', 'str-array'])
            check_pair(left, right, form, fn, options, acc, chunk_seed=rnd.randint(1, 10 ** 6) if form == 'array' else 0)
            if case_ix % 100 == 7:
                # long inputs without a common line for hundreds of lines (nothing to synchronise on), then a common tail
                nl, nr = rnd.randint(101, 260), rnd.randint(101, 260)
                tail = [f'same{k}' for k in range(rnd.randint(0, 3))]
                long_l = [f'L{k % 97}' for k in range(nl)] + tail
                long_r = [f'R{k % 89}' for k in range(nr)] + tail
                check_pair(long_l, long_r, rnd.choice(['array', 'lf']), fn, options, acc)
                acc.count('long_disjoint_inputs')
            if case_ix % 16 == 5:
                # diffLines called from the row expression of a data function that was given a variables object
                got = bare_script.execute_script(bare_script.parse_script(
                    "dd = arrayNew(objectNew('l', ll, 'r', rr))\ndataCalculatedField(dd, 'd', 'diffLines(l, r)', objectNew('zz', 1))\n"
                    "ff = dataFilter(dd, 'arrayLength(diffLines(l, r)) >= zz', objectNew('zz', 0))\nreturn arrayNew(objectGet(arrayGet(dd, 0), 'd'), arrayLength(ff))"),
                    dict(options, globals=dict(options['globals'], ll=list(left), rr=list(right))))
                blocks = got[0] if isinstance(got, list) else None
                check_pair(left, right, 'array', lambda args, o, blocks=blocks: blocks, options, acc)
                if isinstance(got, list) and got[1] != 1:
                    acc.violation('diffLines-in-data-expression', f'dataFilter with diffLines in its expression kept {got[1]} of 1 rows', {'left': left, 'right': right, 'form': 'data-expression'})
                acc.count('calls_from_data_expressions')
            if case_ix % 8 == 3:
                # history: diffLines bound to a baseline with systemPartial and asked about several right sides in turn
                sp = options['globals']['systemPartial']([fn, list(left)], options)
                right_b = [w for w in right if rnd.random() < 0.7] + [rnd.choice(words)]
                for rr in (right, right_b, list(left)):
                    check_pair(left, rr, 'array', lambda args, o, sp=sp: sp([args[1]], o), options, acc)
                acc.count('partial_application_histories')
            if rnd.random() < 0.3 and len(left) >= 3:
                check_pair(left, right, 'mixed', fn, options, acc, chunk_seed=rnd.randint(0, 10 ** 6))
            if rnd.random() < 0.3:
                # array elements that end in (or contain) a bare CR are lines of their own: CR is only part of a CRLF line end
                crw = ['alpha\r', '\r', 'a\rb', 'x', 'y', '']
                l2 = [rnd.choice(crw) for _ in range(rnd.randint(1, 8))]
                r2 = [w for w in l2 if rnd.random() < 0.8] + [rnd.choice(crw) for _ in range(rnd.randint(0, 2))]
                check_pair(l2, r2, 'array', fn, options, acc)
                check_pair(l2, [w.rstrip('\r') for w in l2], 'array', fn, options, acc)
            if rnd.random() < 0.25 and len(left) >= 2 and len(right) >= 2:
                # array elements may themselves hold several lines (LF or CRLF inside an element)
                check_pair(left, right, 'chunks', fn, options, acc, chunk_seed=rnd.randint(0, 10 ** 6))
        acc.sample({'forms': ['array', 'lf', 'crlf', 'mixed LF/CRLF in one text', 'array-str', 'str-array', 'chunks', 'array with CR-ending elements'], 'max_lines': 40}, limit=1)


def replay(spec, acc):
    api = _api()
    case = spec['case']
    if 'left' not in case:
        acc.note_inconclusive('finding-level replay entry')
        return
    fn, options = load_diff(api)
    check_pair(case['left'], case['right'], case['form'], fn, options, acc, chunk_seed=case.get('chunk_seed', 0))
