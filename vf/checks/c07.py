"""C07 - lowered code is well formed: schema-valid with intact, unique jump targets.
Monitor: post-condition contract on parse_script (schema + per-scope label facts) + lint label warnings."""
import itertools
import json
import random

from .. import gen_prog, layout
from ..contracts import Contracts, model_wellformed
from ..refast import pp


def plan(tier, seed):
    specs = []
    if tier == 'quick':
        for sh in range(12):
            specs.append({'part': 'chains', 'depth': 3, 'mod': 12, 'rem': sh})
        for sh in range(4):
            specs.append({'part': 'siblings', 'mod': 4, 'rem': sh, 'n_random': 500, 'shard': sh})
    else:
        for sh in range(32):
            specs.append({'part': 'chains', 'depth': 4, 'mod': 32, 'rem': sh, 'timeout': 3000})
        for sh in range(16):
            specs.append({'part': 'siblings', 'mod': 16, 'rem': sh, 'n_random': 20000, 'shard': sh})
    return specs


def meta(tier):
    d = 3 if tier == 'quick' else 4
    return {
        'level': 'exploration',
        'rule': (f'(a) every nesting chain of the 26 construct variants to depth {d} ({gen_prog.shape_count(d)} chains), each parsed at global '
                 'scope, inside one function, and as a three-function script sharing the label counter; (b) all sibling pairs of depth<=2 '
                 'chains in one scope, function-after-construct and function-inside-open-block placements, near-valid texts whose loop control crosses a function boundary; (c) random deeper generated programs, each also in a respelled layout (blanks before header colons, around commas and parentheses, tabs, trailing blanks); (d) depth<=2 shapes and their empty-body variants are executed and watched for "Unknown jump label". Every parse goes '
                 'through the parse_script contract: schema-valid, each generated jump targets a label defined exactly once in its scope, '
                 'each generated label is targeted, lint emits no label warning. Non-trivial: nesting depth >= 2 or >= 2 sibling '
                 'constructs; distinct = distinct program text.'),
        'exhaustive': True,
        'extra': {'exhaustive_part': f'all {gen_prog.shape_count(d)} chains to depth {d} x 3 placements'},
        'assumptions': ['generated programs never use the reserved __bareScript prefix themselves'],
    }


def _api():
    import bare_script
    from bare_script import model
    return bare_script, model


def check_text(text, acc, api, con, nontrivial, kind):
    bare_script, model = api
    try:
        m = bare_script.parse_script(text)
    except Exception as exc:  # pylint: disable=broad-except
        acc.case(text, nontrivial)
        acc.violation('structured-program-rejected', f'{type(exc).__name__}: {exc}\n{text}', {'text': text})
        con.drain()
        return
    acc.case(text, nontrivial)
    for p, k, detail in con.drain():
        if p == 'C07':
            acc.violation('contract:' + k, detail + '\n' + text, {'text': text})
        else:
            acc.count('cross_' + p + '_' + k)
    warns = [w for w in model.lint_script(m) if 'label' in w.lower()]
    acc.count('lint_runs')
    if warns:
        acc.violation('label-lint-warning', f'{warns}\n{text}', {'text': text})
    nlab = sum(1 for s in m['statements'] if 'label' in s) + sum(1 for f in m['statements'] if 'function' in f for s in f['function']['statements'] if 'label' in s)
    acc.count('labels_inspected', nlab)
    if len(acc.samples) < 2 and nontrivial and kind != 'chain1':
        acc.sample({'text': text.split('\n')[:30], 'labels': nlab})


NEAR_VALID = [
    ['while nx():', '    function fq():', '        if nx():', '            break', '        endif', '    endfunction', 'endwhile'],
    ['for xx in arrayNew(1):', '    function fq():', '        if nx():', '            xx = 1', '        else:', '            continue', '        endif', '    endfunction', 'endfor'],
    ['while nx():', '    function fq():', '        break', '    endfunction', 'endwhile'],
    ['if nx():', '    function fq():', '        while nx():', '            if nx():', '                break', '            endif', '        endwhile', '    endfunction', 'endif'],
    ['while nx():', '    if nx():', '        function fq():', '            if nx():', '                continue', '            endif', '        endfunction', '    endif', 'endwhile'],
    ['function fq():', '    while nx():', '        fr = 1', '    endwhile', 'endfunction', 'while nx():', '    fq()', 'endwhile'],
    # block headers whose expression is ill-formed: rejected, or - if a model comes back - a model that satisfies the schema
    ['if (nx() +:', '    fr = 1', 'endif'], ['while nx() nx():', '    fr = 1', 'endwhile'], ['for xx in (arrayNew(1):', '    fr = xx', 'endfor'],
    ['if nx():', '    fr = 1', 'elif nx() +:', '    fr = 2', 'endif'], ['function fq():', '    while 1 +:', '        break', '    endwhile', 'endfunction'],
    ['for xx in arrayNew(1) extra:', 'endfor'], ['if :', 'endif'], ['while !:', 'endwhile'],
]


def check_near_valid(lines, acc, api, con):
    """Texts at the border of the grammar (loop control crossing a function boundary): the parser may reject them, but a model
    it RETURNS must satisfy the label contract like any other."""
    bare_script, model = api
    text = '\n'.join(lines)
    try:
        bare_script.parse_script(text)
    except Exception:  # pylint: disable=broad-except
        con.drain()
        acc.case(text, True)
        acc.count('near_valid_rejected')
        return
    check_text(text, acc, api, con, True, 'near-valid-accepted')


def run_watch(prog, acc, api, kind):
    """Run-time half of the property: structured code never raises "Unknown jump label"."""
    bare_script, model = api
    text = '\n'.join(pp(prog))
    if kind == 'shape':
        text = layout.respell(text, random.Random(len(text)), 0.5)
    for pat in ([1, 0, 1, 1, 0, 0, 1, 0], [0, 1, 0, 0, 1, 1, 0, 1], [1, 1, 0, 1, 0, 0, 0, 1]):
        try:
            # (the third run is a debug-mode run with a log function: the same jumps, the same labels)
            watched = bare_script.parse_script(text)
            before = json.dumps(watched, sort_keys=True)
            bare_script.execute_script(watched, {'globals': {'nx': gen_prog.make_nx(pat)}, 'maxStatements': 3000,
                                                                         'logFn': (lambda m: None) if pat[1] == 1 and pat[0] == 1 else None, 'debug': pat[1] == 1 and pat[0] == 1})
        except Exception as exc:  # pylint: disable=broad-except
            if 'Unknown jump label' in str(exc):
                acc.violation('unknown-jump-label-at-run-time', f'{exc}\n{text}', {'text': text})
                return
        # the model a run leaves behind is the model the parser returned: still schema-valid, unchanged
        try:
            model.validate_script(watched)
            changed = json.dumps(watched, sort_keys=True) != before
        except Exception as exc:  # pylint: disable=broad-except
            changed = f'{type(exc).__name__}: {str(exc)[:200]}'
        if changed:
            acc.violation('model-changed-by-execution', f'{changed if isinstance(changed, str) else "the model differs from the parsed one"}\n{text}', {'text': text})
            return
        acc.count('executions_watched')


def include_log_check(text_a, text_b, acc, api):
    """Two structured scripts included by CONSECUTIVE include lines (one include statement) in debug mode: the static analysis the run
    logs for them names no label at all - every parse numbers its generated labels for its own scopes."""
    bare_script, _ = api
    files = {'a.bare': text_a, 'b.bare': text_b}
    for main in ("include 'a.bare'\ninclude 'b.bare'", "include 'a.bare'\ninclude 'b.bare'\ninclude 'a.bare'", "include 'b.bare'\nzz = 1\ninclude 'a.bare'"):
        logs = []
        try:
            bare_script.execute_script(bare_script.parse_script(main), {'globals': {'nx': gen_prog.make_nx([1, 0, 1, 1, 0, 0, 1, 0])}, 'maxStatements': 5000, 'logFn': logs.append,
                                                                         'debug': True, 'fetchFn': lambda req: files.get(req['url'])})
        except Exception as exc:  # pylint: disable=broad-except
            if 'Unknown jump label' in str(exc):
                acc.violation('unknown-jump-label-at-run-time', f'{exc}\n{main}\n--- a.bare\n{text_a}\n--- b.bare\n{text_b}', {'text': text_a, 'text_b': text_b, 'main': main})
                return
        acc.count('debug_include_logs_inspected')
        bad = [l for l in logs if 'label' in l.lower() and l.startswith('BareScript:')]
        if bad:
            acc.violation('label-lint-warning', f'include log of {main!r}: {bad[:4]}\n--- a.bare\n{text_a}\n--- b.bare\n{text_b}', {'text': text_a, 'text_b': text_b, 'main': main})
            return


def three_functions(chain):
    a = gen_prog.build_shape(chain, 'function')
    f1 = a[0]
    f2 = ['func', 'fn1', ['p0'], False, gen_prog.build_shape(chain[::-1], 'function')[0][4]]
    g = gen_prog.build_shape(chain, 'global')
    f3 = ['func', 'fn2', [], False, [gen_prog.LOG('x')]]
    return [f1, f2] + g[:-1] + [f3] + [['expr', gen_prog.C('fn0', gen_prog.N(1))], ['expr', gen_prog.C('fn1', gen_prog.N(1))], ['expr', gen_prog.C('fn2')], ['expr', gen_prog.C('fn2')]]


def run_shard(spec, acc):
    api = _api()
    con = Contracts().install({'parse_script'})
    if spec['part'] == 'chains':
        for ix, chain in enumerate(gen_prog.shapes(spec['depth'])):
            if ix % spec['mod'] != spec['rem']:
                continue
            nt = len(chain) >= 2
            check_text('\n'.join(pp(gen_prog.build_shape(chain, 'global'))), acc, api, con, nt, 'chain')
            check_text('\n'.join(pp(gen_prog.build_shape(chain, 'function'))), acc, api, con, nt, 'chain')
            check_text('\n'.join(pp(three_functions(chain))), acc, api, con, True, 'chain3')
            # the same programs in other spellings (blanks before the colon of a header, around commas/parentheses, tabs, trailing blanks)
            rs = random.Random(ix)
            check_text(layout.respell('\n'.join(pp(gen_prog.build_shape(chain, 'function' if ix % 2 else 'global'))), rs, 0.6), acc, api, con, nt, 'chain-respelled')
            if len(chain) <= 2:
                # the same function defined inside an open global if / for / while block
                f = gen_prog.build_shape(chain, 'function')
                for wrap in (['if', [[gen_prog.C('nx'), [f[0]]]], None], ['for', 'ito', None, gen_prog.C('arrayNew', gen_prog.N(1)), [f[0], ['break']]],
                             ['while', gen_prog.C('nx'), [f[0], ['if', [[gen_prog.C('nx'), [['continue']]]], None]]]):
                    check_text('\n'.join(pp([wrap] + f[1:])), acc, api, con, True, 'function-in-block')
                run_watch(gen_prog.build_shape(chain, 'global'), acc, api, 'shape')
                run_watch(three_functions(chain), acc, api, 'three-functions')
                from .c01 import drain_loops
                run_watch(gen_prog.strip_logs(drain_loops(gen_prog.build_shape(chain, 'function'))), acc, api, 'empty-bodies')
                run_watch(gen_prog.strip_logs(drain_loops(gen_prog.build_shape(chain, 'global'))), acc, api, 'empty-bodies')
            acc.cover('depths', str(len(chain)))
    else:
        if spec['rem'] == 0:
            for lines in NEAR_VALID:
                check_near_valid(lines, acc, api, con)
        small = list(gen_prog.shapes(2))
        ix = 0
        for a, b in itertools.product(small[::7], small[::5]):
            ix += 1
            if ix % spec['mod'] != spec['rem']:
                continue
            pa = gen_prog.build_shape(a, 'global')[:-1]
            pb = gen_prog.build_shape(b, 'global')[:-1]
            check_text('\n'.join(pp(pa + pb)), acc, api, con, True, 'siblings')
            fb = gen_prog.build_shape(b, 'function')
            check_text('\n'.join(pp(pa + fb + pa)), acc, api, con, True, 'function-after-construct')
            inner = ['func', 'fq', [], False, pa + pb]
            check_text('\n'.join(pp([inner] + pb)), acc, api, con, True, 'siblings-in-function')
            if ix % 3 == 0:
                include_log_check('\n'.join(pp(pa)), '\n'.join(pp(pb)), acc, api)
        base = spec['seed'] * 1000003 + spec['shard'] * 7919 + 37
        for i in range(spec['n_random']):
            rnd = random.Random(base + i)
            gen = gen_prog.ProgGen(rnd, maxdepth=rnd.choice([3, 5, 6, 7]))
            gen.late_defs = True
            text = '\n'.join(pp(gen.program()))
            check_text(text, acc, api, con, True, 'random')
            check_text(layout.respell(text, rnd, rnd.choice([0.2, 0.5, 0.9])), acc, api, con, True, 'random-respelled')
    acc.count('contract_evals_parse', con.evals.get('parse_script_post', 0))
    if con.evals.get('parse_script_post', 0) == 0:
        acc.note_inconclusive('parse_script contract saw zero evaluations')


def replay(spec, acc):
    if 'text' not in spec['case']:
        acc.note_inconclusive('finding-level replay entry')
        return
    if 'text_b' in spec['case']:
        acc.case((spec['case']['text'], spec['case']['text_b']), True)
        include_log_check(spec['case']['text'], spec['case']['text_b'], acc, _api())
        return
    check_text(spec['case']['text'], acc, _api(), Contracts().install({'parse_script'}), True, 'replay')
