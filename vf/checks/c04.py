"""C04 - scoping, calling convention and host globals.
Oracle: RefAST + WatchedGlobals history; explicit monitors for host-binding identity and shadowed-global reads."""
import random

from .. import exec_prog, gen_prog, layout, refval
from ..refast import pp
from .c01 import _contracts, _drain, _lib


def plan(tier, seed):
    n, nsh = (16000, 16) if tier == 'quick' else (400000, 16)
    return [{'part': 'random', 'n': n // nsh, 'shard': sh} for sh in range(nsh)] + [{'part': 'builtins', 'shard': 0}] + \
        [{'part': 'history', 'n': 60 if tier == 'quick' else 1500, 'shard': 0}, {'part': 'include_scope', 'n': 400 if tier == 'quick' else 20000, 'shard': 0}]


def meta(tier):
    return {
        'level': 'exploration',
        'rule': ('seeded programs defining 1-4 functions (0-3 parameters drawn from a pool that collides with globals, library names '
                 'and expression built-ins; optional "..." rest parameter) called with 0-5 arguments directly, through a variable, '
                 'through systemPartial and as arraySort / arrayIndexOf callbacks; bodies assign locals that shadow globals, write '
                 'globals through systemGlobalSet and log their parameters; host configurations pre-populate globals that shadow '
                 'library names with recording stubs; script functions replace library functions; functions mutating their rest array are bound with systemPartial and called repeatedly; histories of runs that pass their own globals / no globals key / no options (the library dictionary is never written, nothing leaks into later runs); include statements inside function bodies (plain, in if/for/while) run in global scope against RefVM; each of the 46 expression built-ins is shadowed by a global / local / host global inside data expressions / script function. Non-trivial: >= 1 script '
                 'function call observed in the log; distinct = distinct (program text, initial globals, host configuration).'),
        'exhaustive': False,
        'assumptions': ['arrayLength/arrayGet are never redefined by generated scripts (the for lowering calls them by name)',
                        'library semantics inside reference runs are the real functions'],
    }


def run_case(prog, init, stubs, acc, con, lib, respell=None):
    text = '\n'.join(pp(prog))
    if respell is not None:
        # the same program in another layout (blanks, `async function` headers - an async function is called like any other)
        text = layout.respell(text, random.Random(respell), 0.35)
    case = {'prog': prog, 'init': refval.enc(init), 'stubs': sorted(stubs), 'respell': respell}
    extra = {n: gen_prog.make_stub(n) for n in stubs if not n.endswith('=null')}
    # a caller may also bind a library name to null (e.g. to disable it): the library never puts its function back
    extra.update({n[:-5]: None for n in stubs if n.endswith('=null')})
    verdict, real, _ = exec_prog.compare_case(prog, init, None, acc, 'C04', lib, text=text, case=case, extra_hosts=extra)
    if real and verdict in ('ok', 'known') and len(text) % 3 == 0:
        # history: the host lints the model (what `bare -d` and debug-mode includes do) before running it - linting only reads the model,
        # the parameters keep their positions and the run is the same
        def lint_then_parse(t):
            import bare_script
            from bare_script.model import lint_script
            m = bare_script.parse_script(t)
            lint_script(m)
            return m
        alt = exec_prog.run_real(text, init, None, extra_hosts=extra, parse=lint_then_parse)
        acc.count('linted_before_run')
        if alt['status'] != 'timeout':
            bad = [k for k in ('status', 'result', 'logs', 'globals') if alt[k] != real[k]]
            if bad:
                acc.violation('run-differs-after-the-model-was-linted:' + ','.join(bad), '; '.join(f'{k}: linted={alt.get(k)!r:.300} plain={real.get(k)!r:.300}' for k in bad) + f'\n{text}', dict(case, linted=True))
    _drain(con, acc, 'C04', case)
    calls = sum(1 for l in (real or {}).get('logs', []) if l.startswith('in_')) if real else 0
    acc.case((text, repr(case['init']), case['stubs']), calls >= 1)
    acc.count('verdict_' + verdict)
    acc.count('script_function_calls_observed', calls)
    if real and verdict in ('ok', 'known'):
        # host-supplied bindings are never overwritten by library injection (identity), and are really used
        for name, same in real.get('host_after', {}).items():
            acc.count('host_binding_identity_checks')
            if not same:
                acc.violation('host-global-overwritten', f'{name} no longer bound to the host value after the run\n{text}', case)
        # q9 only ever exists as a parameter: a read of the global q9 means a global was consulted before a live local
        if real.get('reads', {}).get('q9'):
            acc.violation('global-read-while-local-shadows', f'global q9 read {real["reads"]["q9"]}x\n{text}', case)
        acc.count('shadowed_global_read_checks')
        if calls >= 2 and verdict == 'ok':
            acc.sample({'program': text.split('\n')[:30], 'stubs': case['stubs'], 'first_logs': real['logs'][:6]}, limit=2)
    return verdict


def make_case(rnd):
    gen = gen_prog.FuncGen(rnd)
    prog = gen.program()
    init = gen_prog.init_values(rnd, gen.vars + ['gs'], p_num=0.75)
    init['q9'] = 'GLOBAL-q9'
    stubs = [n for n in gen_prog.HOST_SHADOW if rnd.random() < 0.4]
    stubs += [n + '=null' for n in ('systemFetch', 'mathSign', 'arrayPop', 'stringTrim', 'systemLogDebug') if n not in stubs and rnd.random() < 0.12]
    return prog, init, stubs, gen


def run_builtins(acc):
    """A name bound in locals or globals always wins over a built-in expression function - in expression mode through the
    API and through the data functions called from scripts (host stub, script-defined function, local)."""
    import bare_script
    from bare_script.runtime import evaluate_expression
    from ..refeval import ALIASES
    for alias in sorted(ALIASES):
        expr = {'function': {'name': alias, 'args': [{'variable': 'aa'}]}}
        g_stub = lambda a, o: 'global-wins'  # noqa: E731
        l_stub = lambda a, o: 'local-wins'  # noqa: E731
        case = {'alias': alias}
        acc.case(('builtin-shadow', alias), True)
        r1 = evaluate_expression(expr, {'globals': {'aa': 1.0, alias: g_stub}}, None, True)
        r2 = evaluate_expression(expr, {'globals': {'aa': 1.0, alias: g_stub}}, {alias: l_stub}, True)
        r3 = evaluate_expression(expr, {'globals': {'aa': 1.0}}, {alias: l_stub}, True)
        if (r1, r2, r3) != ('global-wins', 'local-wins', 'local-wins'):
            acc.violation('builtin-wins-over-binding', f'{alias}: global->{r1!r} local+global->{r2!r} local->{r3!r}', case)
            continue
        # a NON-function value bound to the name wins as well: the call fails (null + debug report), the built-in never runs;
        # a name bound to null is an undefined function
        from bare_script.runtime import BareScriptRuntimeError
        for where in ('global', 'local'):
            for bound in (5.0, 'text', {'k': 1}):
                logs = []
                g = {'aa': 1.0}
                loc = None
                if where == 'global':
                    g[alias] = bound
                else:
                    loc = {alias: bound}
                try:
                    r = evaluate_expression(expr, {'globals': g, 'logFn': logs.append, 'debug': True}, loc, True)
                except BareScriptRuntimeError as exc:
                    r = ('rterr', str(exc))
                acc.count('builtin_shadow_checks')
                if r is not None or not any(f'"{alias}"' in l for l in logs):
                    acc.violation('builtin-wins-over-non-function-binding', f'{alias} bound to {bound!r} in {where}s: result {r!r}, log {logs[:1]!r:.200}', case)
                    break
            try:
                r = evaluate_expression(expr, {'globals': {'aa': 1.0, alias: None}} if where == 'global' else {'globals': {'aa': 1.0}}, None if where == 'global' else {alias: None}, True)
                acc.violation('builtin-wins-over-null-binding', f'{alias} bound to null in {where}s: result {r!r} instead of an undefined-function error', case)
            except BareScriptRuntimeError:
                acc.count('builtin_shadow_checks')
        # through a script: a host global and a script-defined function shadow the built-in inside data expressions
        text = (f"dd = arrayNew(objectNew('aa', 5))\ndataCalculatedField(dd, 'r1', '{alias}(aa)')\n"
                f"r2 = dataFilter(dd, '{alias}(aa) == \\'host-stub\\'')\nreturn arrayNew(objectGet(arrayGet(dd, 0), 'r1'), arrayLength(r2))")
        res = bare_script.execute_script(bare_script.parse_script(text), {'globals': {alias: lambda a, o: 'host-stub'}})
        if res != ['host-stub', 1]:
            acc.violation('builtin-wins-over-host-global-in-data-expression', f'{alias}: {res!r}', case)
            continue
        if alias not in ('if',):
            text2 = (f"function {alias}(xx):\n    return 'script-fn'\nendfunction\ndd = arrayNew(objectNew('aa', 5))\n"
                     f"dataCalculatedField(dd, 'r1', '{alias}(aa)')\nreturn objectGet(arrayGet(dd, 0), 'r1')")
            res2 = bare_script.execute_script(bare_script.parse_script(text2), {'globals': {}})
            if res2 != 'script-fn':
                acc.violation('builtin-wins-over-script-function-in-data-expression', f'{alias}: {res2!r}', case)
                continue
        acc.count('builtin_shadow_checks', 6)
    acc.sample({'builtin_shadowing': 'global / local / host global in data expression / script function, for each of the 46 aliases'}, limit=1)


HISTORY_SCRIPTS = [
    "counter = 5\nfunction helper(a):\n    return a + counter\nendfunction\nreturn helper(1)",
    "function arrayNew(a):\n    return 'script arrayNew'\nendfunction\nmathAbs = 7\nreturn arrayNew(1)",
    "leftover = arrayNew(1, 2)\nsystemGlobalSet('viaSet', 3)\nreturn leftover",
    "function stringLength(s):\n    return 0 - 1\nendfunction\nreturn stringLength('abc')",
    "return arrayLength(arrayNew(1, 2, 3)) + stringLength('ab') + mathAbs(0 - 1)",
    "zz = objectNew('a', 1)\nobjectSet(zz, 'b', 2)\nreturn objectKeys(zz)",
]


def run_history(spec, acc):
    """Histories of execute_script / evaluate_expression calls in ONE process, with every way of passing globals (own dict,
    options without 'globals', options omitted): the names a run leaves behind live in ITS globals object only; the library
    dictionary is never written; a later run with fresh globals sees exactly the library plus its own assignments."""
    import bare_script
    from bare_script.library import EXPRESSION_FUNCTIONS, SCRIPT_FUNCTIONS
    from bare_script.runtime import BareScriptRuntimeError, evaluate_expression
    snap_lib = dict(SCRIPT_FUNCTIONS)
    snap_expr = dict(EXPRESSION_FUNCTIONS)
    models = [bare_script.parse_script(t) for t in HISTORY_SCRIPTS]
    rnd = random.Random(spec['seed'] * 7919 + 131)
    cold = {}
    for ix, m in enumerate(models):
        g = {}
        cold[ix] = (refval.canon(bare_script.execute_script(m, {'globals': g})), sorted(k for k in g if k not in snap_lib or g[k] is not snap_lib[k]))
    for h in range(spec['n']):
        seq = [rnd.randrange(len(models)) for _ in range(rnd.randint(3, 8))]
        for step, ix in enumerate(seq):
            mode = rnd.choice(['own', 'own', 'no-globals-key', 'no-options', 'none-globals'])
            case = {'history': seq[:step + 1], 'mode': mode}
            g = None
            try:
                if mode == 'own':
                    g = {}
                    res = bare_script.execute_script(models[ix], {'globals': g})
                elif mode == 'no-globals-key':
                    o = {}
                    res = bare_script.execute_script(models[ix], o)
                    g = o.get('globals')
                elif mode == 'none-globals':
                    o = {'globals': None}
                    res = bare_script.execute_script(models[ix], o)
                    g = o.get('globals')
                else:
                    res = bare_script.execute_script(models[ix])
            except Exception as exc:  # pylint: disable=broad-except
                acc.violation('history-run-raised', f'{mode}: {type(exc).__name__}: {exc} after {seq[:step]}', case)
                return
            acc.case(('history', tuple(seq[:step + 1]), mode), step >= 1)
            acc.count('history_runs')
            acc.cover('globals_modes', mode)
            if refval.canon(res) != cold[ix][0]:
                acc.violation('run-depends-on-earlier-runs', f'script {ix} ({mode}) returned {res!r} after history {seq[:step]}; alone it returns {cold[ix][0]!r}', case)
                return
            if g is not None:
                if g is SCRIPT_FUNCTIONS:
                    acc.violation('library-dict-used-as-globals', f'mode {mode}: the run\'s globals object IS the library dictionary', case)
                    return
                own = sorted(k for k in g if k not in snap_lib or g[k] is not snap_lib[k])
                if own != cold[ix][1]:
                    acc.violation('globals-leak-between-runs', f'script {ix} ({mode}) after history {seq[:step]} ends with own names {own}; alone: {cold[ix][1]}', case)
                    return
            # the library (and the expression built-ins) are exactly what they were at import
            for name, snap, live in (('SCRIPT_FUNCTIONS', snap_lib, SCRIPT_FUNCTIONS), ('EXPRESSION_FUNCTIONS', snap_expr, EXPRESSION_FUNCTIONS)):
                if live.keys() != snap.keys() or any(live[k] is not snap[k] for k in snap):
                    diff = sorted(set(live) ^ set(snap)) + sorted(k for k in snap if k in live and live[k] is not snap[k])
                    acc.violation('library-modified', f'{name} changed after a run in mode {mode}: {diff[:8]}', case)
                    return
            acc.count('library_identity_checks')
        # a library script preloaded into base globals; request scripts run on COPIES of them: its functions read and write the
        # globals of the run that CALLS them (never those of the run that defined them)
        base_g = {}
        bare_script.execute_script(bare_script.parse_script(
            "rate = 0.5\nfunction getRate():\n    return rate\nendfunction\nfunction setRate(r):\n    systemGlobalSet('rate', r)\n    return rate\nendfunction\n"
            "function bump():\n    counter = if(counter == null, 0, counter) + 1\n    systemGlobalSet('counter', counter)\n    return counter\nendfunction"), {'globals': base_g})
        for k in range(3):
            req_g = dict(base_g)
            want_rate = 0.25 * (k + 1)
            res = bare_script.execute_script(bare_script.parse_script(
                f"before = getRate()\nrate = {want_rate}\nseen = getRate()\nset = setRate(rate * 2)\n"
                "dd = dataCalculatedField(arrayNew(objectNew('a', 1)), 'r', 'getRate() + vv', objectNew('vv', 100))\n"
                "return arrayNew(before, seen, set, rate, bump(), bump(), objectGet(arrayGet(dd, 0), 'r'))"), {'globals': req_g})
            acc.case(('preloaded-library', h, k), True)
            acc.count('preloaded_library_requests')
            want = [0.5, want_rate, want_rate * 2, want_rate * 2, 1, 2, want_rate * 2 + 100]
            if res != want or base_g.get('rate') != 0.5 or 'counter' in base_g or req_g.get('counter') != 2:
                acc.violation('function-uses-globals-of-defining-run', f'request {k}: got {res!r}, expected {want!r}; base globals rate={base_g.get("rate")!r} counter={base_g.get("counter")!r}; '
                              f'request globals counter={req_g.get("counter")!r}', {'history': 'preloaded-library', 'request': k})
                return
        # the SAME globals object across runs: a script function that replaced a library function in an earlier run is a name the
        # caller supplies to the next run - the library merge leaves it alone (as it leaves host values and other script functions)
        g = {}
        bare_script.execute_script(bare_script.parse_script("function arrayLength(a):\n    return 'script arrayLength'\nendfunction\nfunction helper(x):\n    return 'helper ' + x\nendfunction\nmathAbs = 'not a function'"), {'globals': g})
        kept = {k: g[k] for k in ('arrayLength', 'helper', 'mathAbs')}
        for k in range(2):
            res = bare_script.execute_script(bare_script.parse_script("return arrayNew(arrayLength(arrayNew(1, 2)), helper(1), mathAbs, stringLength('abc'))"), {'globals': g})
            acc.case(('same-globals-next-run', h, k), True)
            acc.count('same_globals_next_run_checks')
            if res != ['script arrayLength', 'helper 1', 'not a function', 3] or any(g[n] is not v for n, v in kept.items()):
                acc.violation('library-overwrote-supplied-name', f'second run on the same globals: {res!r}; bindings kept: { {n: g[n] is v for n, v in kept.items()} }', {'history': 'same-globals-next-run'})
                return
        # a script that binds names to NULL with systemGlobalSet (a library function, an expression built-in, a host function, a function of
        # its own): null is a value - the names stay bound (to null) for the rest of the run, for the next run on the same globals and
        # for expression evaluation; nothing puts the library function back
        g = {'hostFn': lambda a, opts: 'host'}
        first = bare_script.execute_script(bare_script.parse_script(
            "function mine():\n    return 1\nendfunction\nsystemGlobalSet('mathSign', null)\nsystemGlobalSet('round', null)\nsystemGlobalSet('hostFn', null)\nsystemGlobalSet('mine', null)\nsystemGlobalSet('fresh', null)\n"
            "return arrayNew(mathSign, hostFn, mine, fresh, systemGlobalGet('mathSign', 'default'))"), {'globals': g})
        acc.case(('null-set-names', h), True)
        acc.count('null_set_name_checks')
        bound = {n: (n in g, g.get(n)) for n in ('mathSign', 'round', 'hostFn', 'mine', 'fresh')}
        if first != [None, None, None, None, None] and first != [None, None, None, None, 'default']:
            acc.violation('null-binding-not-kept', f'first run returned {first!r}', {'history': 'null-set-names'})
            return
        if any(b != (True, None) for b in bound.values()):
            acc.violation('null-binding-not-kept', f'after systemGlobalSet(name, null) the globals hold {bound!r} (expected every name present and bound to null)', {'history': 'null-set-names'})
            return
        for probe in ("return mathSign(0 - 3)", "return mine()", "return hostFn()"):
            try:
                res = bare_script.execute_script(bare_script.parse_script(probe), {'globals': g})
                acc.violation('null-binding-not-kept', f'next run on the same globals: {probe!r} returned {res!r} (the name is bound to null: an undefined-function error is due)', {'history': 'null-set-names', 'probe': probe})
                return
            except BareScriptRuntimeError:
                pass
        for expr_text, call in (('round(2.5)', {'function': {'name': 'round', 'args': [{'number': 2.5}]}}),):
            try:
                res = evaluate_expression(call, {'globals': g}, None, True)
                acc.violation('builtin-wins-over-null-binding', f'{expr_text} with round bound to null by systemGlobalSet gave {res!r}', {'history': 'null-set-names'})
                return
            except BareScriptRuntimeError:
                pass
        try:
            got = bare_script.execute_script(bare_script.parse_script("dd = arrayNew(objectNew('a', 2.5))\nreturn dataCalculatedField(dd, 'r', 'round(a)')"), {'globals': g, 'logFn': None})
            if got != [{'a': 2.5, 'r': None}] and got is not None:
                acc.violation('builtin-wins-over-null-binding', f'data expression round(a) with round bound to null by systemGlobalSet: {got!r}', {'history': 'null-set-names'})
                return
        except BareScriptRuntimeError:
            pass
        # the callee is looked up AFTER its arguments were evaluated: an argument that re-binds the called name (a script function
        # replaced through systemGlobalSet, a library name taken over by a script function, a host function set to null) decides
        # what is called
        g = {'hostFn': lambda a, opts: 'host'}
        res = bare_script.execute_script(bare_script.parse_script(
            "function target(x):\n    return 'old ' + x\nendfunction\nfunction newTarget(x):\n    return 'new ' + x\nendfunction\n"
            "function swap():\n    systemGlobalSet('target', newTarget)\n    return 1\nendfunction\n"
            "function takeOver():\n    systemGlobalSet('arrayLength', newTarget)\n    return arrayNew(1, 2)\nendfunction\n"
            "function nullHost():\n    systemGlobalSet('hostFn', newTarget)\n    return 3\nendfunction\n"
            "return arrayNew(target(swap()), arrayLength(takeOver()), hostFn(nullHost()), target(2))"), {'globals': g})
        acc.case(('argument-rebinds-callee', h), True)
        acc.count('argument_rebinds_callee_checks')
        if res != ['new 1', 'new [1,2]', 'new 3', 'new 2']:
            acc.violation('callee-looked-up-before-its-arguments', f'{res!r} (expected the re-bound functions: [\'new 1\', \'new [1,2]\', \'new 3\', \'new 2\'])', {'history': 'argument-rebinds-callee'})
            return
        # ONE options object, a different globals object for every run (fresh dict, dict with a host override, none at all):
        # each run gets the library added to ITS globals
        o = {'maxStatements': 1000}
        for k, gk in enumerate(({}, {'mathAbs': lambda a, opts: 'host abs'}, None, {}, {'zz': 1})):
            want = [3, 'host abs' if isinstance(gk, dict) and 'mathAbs' in gk else 2, 2]
            if gk is None:
                o.pop('globals', None)
            else:
                o['globals'] = gk
            try:
                res = bare_script.execute_script(bare_script.parse_script("top = arrayLength(arrayNew(1, 2, 3))\nreturn arrayNew(top, mathAbs(0 - 2), stringLength('ab'))"), o)
            except Exception as exc:  # pylint: disable=broad-except
                res = f'{type(exc).__name__}: {exc}'
            acc.case(('options-reused-fresh-globals', h, k), True)
            acc.count('options_reused_with_fresh_globals')
            wrote = o.get('globals', {}).get('top') if isinstance(o.get('globals'), dict) else None
            if res != want or wrote != 3 or (gk is not None and o.get('globals') is not gk):
                acc.violation('library-not-added-to-new-globals', f'run {k + 1} on a reused options object with globals {gk!r:.80}: {res!r}, top-level assignment landed: {wrote == 3}', {'history': 'options-reused-fresh-globals', 'run': k})
                return
        # one options object reused after a run that FAILED inside a data function called with a variables object (runtime error in
        # the row expression, budget exceeded in a callback): the caller's globals object is still the one in the options, the
        # variables are gone, and the next run writes its assignments there
        for failing in ("dd = arrayNew(objectNew('a', 1))\nrr = dataFilter(dd, 'nosuch(a) + vv', objectNew('vv', 7))",
                        "dd = arrayNew(objectNew('a', 1))\nrr = dataCalculatedField(dd, 'cc', 'nosuch(vv)', objectNew('vv', 7))",
                        "function spin(x):\n    while true:\n        x = x + 1\n    endwhile\nendfunction\ndd = arrayNew(objectNew('a', 1))\nrr = dataJoin(dd, dd, 'spin(a) + vv', null, false, objectNew('vv', 7))"):
            g = {'keep': 'mine'}
            o = {'globals': g, 'maxStatements': 200}
            try:
                bare_script.execute_script(bare_script.parse_script(failing), o)
                acc.note_inconclusive('a run that was expected to fail with a runtime error completed')
            except BareScriptRuntimeError:
                pass
            res = bare_script.execute_script(bare_script.parse_script("after = 5\nreturn arrayNew(vv, keep, after)"), o)
            acc.case(('options-after-failed-data-call', h, failing[:40]), True)
            acc.count('options_reuse_after_failure_checks')
            if o.get('globals') is not g or g.get('after') != 5 or 'vv' in g or res != [None, 'mine', 5]:
                acc.violation('globals-object-replaced-after-failed-call', f'after a failed {failing.split("= data")[-1][:24]!r} run: options globals is the caller\'s object: {o.get("globals") is g}; '
                              f'after={g.get("after")!r} vv leaked={"vv" in g} result={res!r}', {'history': 'options-reuse-after-failure', 'script': failing})
                return
        # expression evaluation without options / globals reads unknown names as null and sees the built-ins only
        for e, want in (({'variable': 'counter'}, None), ({'variable': 'leftover'}, None), ({'function': {'name': 'abs', 'args': [{'number': -2.0}]}}, 2)):
            for opts in (None, {}, {'globals': {}}):
                got = evaluate_expression(e, opts)
                acc.count('expression_without_globals_checks')
                if got != want:
                    acc.violation('expression-sees-leftovers', f'{e} with options {opts!r} = {got!r}, expected {want!r}', {'history': seq})
                    return


INC_FILES = [
    ("va = va + 10\nloc1 = 'set by include'\nsystemLog('inc sees p0=' + jsonStringify(p0) + ' va=' + jsonStringify(va))\nfunction fromInc(x):\n    return arrayNew(x, va, loc1, p0)\nendfunction"),
    ("p0 = 'include wrote p0'\nsystemLog('inc2 ' + jsonStringify(arrayNew(va, vb)))\nvb = 'B'"),
    ("if va:\n    vb = vb + 1\nelse:\n    vb = 0 - 1\nendif\nfor it in arrayNew(1, 2):\n    vc = it\nendfor\nreturn 99"),
    ("function p0(x):\n    return 'p0 is a function now'\nendfunction\nva = p0"),
]


def run_include_scope(spec, acc):
    """An include statement inside a function body (also nested in its if / loop blocks) runs the included text in GLOBAL scope:
    its assignments reach the globals object and never the call's locals, its reads never see parameters or locals.
    Oracle: RefVM over the same virtual files."""
    from . import c17
    api = c17._api()
    bare_script = api[0]
    rnd = random.Random(spec['seed'] * 7919 + 137)
    for i in range(spec['n']):
        k = rnd.randrange(len(INC_FILES))
        k2 = rnd.randrange(len(INC_FILES))
        params = rnd.choice([['p0'], ['p0', 'va'], ['va', 'vb'], ['p0', 'loc1'], []])
        inc = f"include 'lib{k}.bare'"
        wrap = rnd.choice(['plain', 'if', 'for', 'while'])
        if wrap == 'if':
            body_inc = f"    if true:\n        {inc}\n    endif"
        elif wrap == 'for':
            body_inc = f"    for itx in arrayNew(1):\n        {inc}\n    endfor"
        elif wrap == 'while':
            body_inc = f"    wq = 0\n    while wq < 1:\n        wq = wq + 1\n        {inc}\n    endwhile"
        else:
            body_inc = f"    {inc}"
        pre = rnd.choice(["", "    loc1 = 'local before'\n", "    va = 'local va'\n"])
        main = (f"function loader({', '.join(params)}):\n{pre}{body_inc}\n"
                f"    systemLog('after include: ' + jsonStringify(arrayNew({', '.join(params + ['loc1', 'va', 'vb'])})))\n"
                f"    return arrayNew({', '.join(params) or 'null'})\nendfunction\n"
                f"systemLog('r=' + jsonStringify(loader({', '.join(rnd.choice(['1', chr(39) + 'arg' + chr(39), 'null', 'va']) for _ in range(rnd.randint(0, len(params) + 1)))})))\n"
                + (f"include 'lib{k2}.bare'\n" if rnd.random() < 0.4 else '')
                + "if fromInc:\n    systemLog('fromInc ' + jsonStringify(fromInc(5)))\nendif\n"
                "systemLog('end ' + jsonStringify(arrayNew(va, vb, vc, loc1, if(systemType(p0) == 'function', 'fn', p0))))")
        main = f"va = {rnd.choice(['1', '0', chr(39) + 'g' + chr(39)])}\nvb = {rnd.choice(['2', 'null'])}\n" + main
        if not include_scope_case(main, acc, api):
            return
        acc.cover('include_wrappers', wrap)
    acc.sample({'include_in_function_example': main.split('\n')[:10]}, limit=1)


def include_scope_case(main, acc, api):
    from . import c17
    bare_script = api[0]
    if True:
        files = {f'lib{j}.bare': t for j, t in enumerate(INC_FILES)}
        model = bare_script.parse_script(main)
        case = {'main': main}
        real = c17.run_real(model, None, files, {}, api, '/sys/')
        ref = c17.run_ref(model, None, files, {}, api, '/sys/')
        acc.case(main, True)
        acc.count('include_in_function_runs')
        if real is None:
            acc.timeouts += 1
            return True
        bad = [x for x in ('r', 'fetches', 'logs', 'globals') if real[x] != ref[x]]
        if bad:
            acc.violation('include-inside-function-scope:' + ','.join(bad), '; '.join(f'{x}: real={real[x]!r:.400} ref={ref[x]!r:.400}' for x in bad) + f'\n{main}', case)
            return False
        return True


def run_shard(spec, acc):
    if spec.get('part') == 'builtins':
        run_builtins(acc)
        return
    if spec.get('part') == 'history':
        run_history(spec, acc)
        return
    if spec.get('part') == 'include_scope':
        run_include_scope(spec, acc)
        return
    lib = _lib()
    con = _contracts()
    acc.count('prior_runs_without_globals', exec_prog.prior_runs())
    base = spec['seed'] * 1000003 + spec['shard'] * 7919 + 41
    for i in range(spec['n']):
        rnd = random.Random(base + i)
        prog, init, stubs, gen = make_case(rnd)
        run_case(prog, init, stubs, acc, con, lib, respell=(base + i) if i % 4 == 2 else None)
        for _, params, lastarr in gen.sigs:
            acc.cover('signatures', f'{len(params)}{"+rest" if lastarr else ""}')
    if con.evals.get('parse_script_post', 0) == 0:
        acc.note_inconclusive('parse_script contract saw zero evaluations')


def replay(spec, acc):
    case = spec['case']
    if 'main' in case:
        from . import c17
        include_scope_case(case['main'], acc, c17._api())
        return
    if 'prog' not in case:
        acc.note_inconclusive('finding-level replay entry')
        return
    run_case(case['prog'], refval.dec(case['init']), case.get('stubs', []), acc, _contracts(), _lib(), respell=case.get('respell'))
