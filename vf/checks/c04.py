"""C04 - scoping, calling convention and host globals.
Oracle: RefAST + WatchedGlobals history; explicit monitors for host-binding identity and shadowed-global reads."""
import random

from .. import exec_prog, gen_prog, refval
from ..refast import pp
from .c01 import _contracts, _drain, _lib


def plan(tier, seed):
    n, nsh = (16000, 16) if tier == 'quick' else (400000, 16)
    return [{'part': 'random', 'n': n // nsh, 'shard': sh} for sh in range(nsh)] + [{'part': 'builtins', 'shard': 0}]


def meta(tier):
    return {
        'level': 'exploration',
        'rule': ('seeded programs defining 1-4 functions (0-3 parameters drawn from a pool that collides with globals, library names '
                 'and expression built-ins; optional "..." rest parameter) called with 0-5 arguments directly, through a variable, '
                 'through systemPartial and as arraySort / arrayIndexOf callbacks; bodies assign locals that shadow globals, write '
                 'globals through systemGlobalSet and log their parameters; host configurations pre-populate globals that shadow '
                 'library names with recording stubs; script functions replace library functions; functions mutating their rest array are bound with systemPartial and called repeatedly; each of the 46 expression built-ins is shadowed by a global / local / host global inside data expressions / script function. Non-trivial: >= 1 script '
                 'function call observed in the log; distinct = distinct (program text, initial globals, host configuration).'),
        'exhaustive': False,
        'assumptions': ['arrayLength/arrayGet are never redefined by generated scripts (the for lowering calls them by name)',
                        'library semantics inside reference runs are the real functions'],
    }


def run_case(prog, init, stubs, acc, con, lib):
    text = '\n'.join(pp(prog))
    case = {'prog': prog, 'init': refval.enc(init), 'stubs': sorted(stubs)}
    extra = {n: gen_prog.make_stub(n) for n in stubs}
    verdict, real, _ = exec_prog.compare_case(prog, init, None, acc, 'C04', lib, text=text, case=case, extra_hosts=extra)
    _drain(con, acc, 'C04', case)
    calls = sum(1 for l in (real or {}).get('logs', []) if l.startswith('in_')) if real else 0
    acc.case((text, repr(case['init']), case['stubs']), calls >= 1)
    acc.count('verdict_' + verdict)
    acc.count('script_function_calls_observed', calls)
    if real and verdict in ('ok', 'known'):
        # host-supplied bindings are never overwritten by library injection (identity), and are really used
        for name, same in real.get('host_after', {}).items():
            acc.count('host_binding_identity_checks')
            if not same:
                acc.violation('host-global-overwritten', f'{name} no longer bound to the host value after the run\n{text}', case)
        # q9 only ever exists as a parameter: a read of the global q9 means a global was consulted before a live local
        if real.get('reads', {}).get('q9'):
            acc.violation('global-read-while-local-shadows', f'global q9 read {real["reads"]["q9"]}x\n{text}', case)
        acc.count('shadowed_global_read_checks')
        if calls >= 2 and verdict == 'ok':
            acc.sample({'program': text.split('\n')[:30], 'stubs': case['stubs'], 'first_logs': real['logs'][:6]}, limit=2)
    return verdict


def make_case(rnd):
    gen = gen_prog.FuncGen(rnd)
    prog = gen.program()
    init = gen_prog.init_values(rnd, gen.vars + ['gs'], p_num=0.75)
    init['q9'] = 'GLOBAL-q9'
    stubs = [n for n in gen_prog.HOST_SHADOW if rnd.random() < 0.4]
    return prog, init, stubs, gen


def run_builtins(acc):
    """A name bound in locals or globals always wins over a built-in expression function - in expression mode through the
    API and through the data functions called from scripts (host stub, script-defined function, local)."""
    import bare_script
    from bare_script.runtime import evaluate_expression
    from ..refeval import ALIASES
    for alias in sorted(ALIASES):
        expr = {'function': {'name': alias, 'args': [{'variable': 'aa'}]}}
        g_stub = lambda a, o: 'global-wins'  # noqa: E731
        l_stub = lambda a, o: 'local-wins'  # noqa: E731
        case = {'alias': alias}
        acc.case(('builtin-shadow', alias), True)
        r1 = evaluate_expression(expr, {'globals': {'aa': 1.0, alias: g_stub}}, None, True)
        r2 = evaluate_expression(expr, {'globals': {'aa': 1.0, alias: g_stub}}, {alias: l_stub}, True)
        r3 = evaluate_expression(expr, {'globals': {'aa': 1.0}}, {alias: l_stub}, True)
        if (r1, r2, r3) != ('global-wins', 'local-wins', 'local-wins'):
            acc.violation('builtin-wins-over-binding', f'{alias}: global->{r1!r} local+global->{r2!r} local->{r3!r}', case)
            continue
        # through a script: a host global and a script-defined function shadow the built-in inside data expressions
        text = (f"dd = arrayNew(objectNew('aa', 5))\ndataCalculatedField(dd, 'r1', '{alias}(aa)')\n"
                f"r2 = dataFilter(dd, '{alias}(aa) == \\'host-stub\\'')\nreturn arrayNew(objectGet(arrayGet(dd, 0), 'r1'), arrayLength(r2))")
        res = bare_script.execute_script(bare_script.parse_script(text), {'globals': {alias: lambda a, o: 'host-stub'}})
        if res != ['host-stub', 1]:
            acc.violation('builtin-wins-over-host-global-in-data-expression', f'{alias}: {res!r}', case)
            continue
        if alias not in ('if',):
            text2 = (f"function {alias}(xx):\n    return 'script-fn'\nendfunction\ndd = arrayNew(objectNew('aa', 5))\n"
                     f"dataCalculatedField(dd, 'r1', '{alias}(aa)')\nreturn objectGet(arrayGet(dd, 0), 'r1')")
            res2 = bare_script.execute_script(bare_script.parse_script(text2), {'globals': {}})
            if res2 != 'script-fn':
                acc.violation('builtin-wins-over-script-function-in-data-expression', f'{alias}: {res2!r}', case)
                continue
        acc.count('builtin_shadow_checks', 6)
    acc.sample({'builtin_shadowing': 'global / local / host global in data expression / script function, for each of the 46 aliases'}, limit=1)


def run_shard(spec, acc):
    if spec.get('part') == 'builtins':
        run_builtins(acc)
        return
    lib = _lib()
    con = _contracts()
    base = spec['seed'] * 1000003 + spec['shard'] * 7919 + 41
    for i in range(spec['n']):
        rnd = random.Random(base + i)
        prog, init, stubs, gen = make_case(rnd)
        run_case(prog, init, stubs, acc, con, lib)
        for _, params, lastarr in gen.sigs:
            acc.cover('signatures', f'{len(params)}{"+rest" if lastarr else ""}')
    if con.evals.get('parse_script_post', 0) == 0:
        acc.note_inconclusive('parse_script contract saw zero evaluations')


def replay(spec, acc):
    case = spec['case']
    if 'prog' not in case:
        acc.note_inconclusive('finding-level replay entry')
        return
    run_case(case['prog'], refval.dec(case['init']), case.get('stubs', []), acc, _contracts(), _lib())
