"""C15 - array, object and string functions obey their sequence/map/string contracts under histories.
Oracle: RefSeq/RefMap/RefStr (vf/ref_seq.py) replayed on a shadow pool with the same aliasing; the script logs the
result and the whole pool after every step, so effects through every alias and on failing calls are observed."""
import copy
import json
import math
import random
import re
import urllib.parse

from .. import core, ref_seq, refval
from ..ref_seq import FAIL, NAMES, SIG, Bad, BadWith, model_call

STRS = ['', 'a', 'abc', 'a,b,,c', '  pad ', 'AbC', 'abcabc', 'b', 'é😀x', 'x😀', 'aXa', 'Straße', 'ΣΑΣ', 'ǅ', 'ﬁ İ', 'ſŉµ']


def plan(tier, seed):
    nsh = 16
    n = 9600 if tier == 'quick' else 240000
    specs = [{'part': 'histories', 'n': n // nsh, 'shard': sh, 'nops': 30} for sh in range(nsh)]
    specs.append({'part': 'escapes', 'n': 400 if tier == 'quick' else 20000, 'shard': 0})
    specs.append({'part': 'comparators', 'n': 300 if tier == 'quick' else 20000, 'shard': 1})
    return specs


def meta(tier):
    return {
        'level': 'exploration',
        'rule': ('seeded scripts of 30 operations over the array*, object*, string* functions applied to a pool of 3-6 containers with '
                 'aliases (one variable aliasing another, results of returning-the-argument functions stored back), indices from '
                 '-2..len+2 written as float literals, 8% wrong-typed arguments of every scalar type, missing optional and surplus '
                 'arguments, containers nested into containers (no cycles); after every step the script logs the JSON of the result and '
                 'of every pool entry, compared with the list/dict/str model; arraySort with seven script comparators (fractional results) on fractional operands seen through an alias; regexEscape against 20 neighbour strings and urlEncode* '
                 'against percent-decoding on random strings. Non-trivial: a history with >= 10 successful mutating steps; distinct = '
                 'distinct script text.'),
        'exhaustive': False,
        'assumptions': ['arrayDelete\'s return value and empty search/separator strings are not asserted; raising arraySort comparators and '
                        'cyclic containers are not generated', 'an explicit null is a wrong-typed argument unless the parameter has a computed default'],
    }


def _api():
    import bare_script
    from bare_script.library import SCRIPT_FUNCTIONS
    return bare_script, SCRIPT_FUNCTIONS


def isnum(x):
    return isinstance(x, (int, float)) and not isinstance(x, bool)


def lit(v):
    if v is None:
        return 'null'
    if isinstance(v, bool):
        return 'true' if v else 'false'
    if isnum(v):
        s = repr(float(v))
        s = s[:-2] if s.endswith('.0') else s
        return s if v >= 0 else '(0 - ' + s[1:] + ')'
    if isinstance(v, str):
        return "'" + v.replace('\\', '\\\\').replace("'", "\\'") + "'"
    if isinstance(v, list):
        return 'arrayNew(' + ', '.join(lit(x) for x in v) + ')'
    if isinstance(v, dict) and all(isinstance(k, str) for k in v):
        return 'objectNew(' + ', '.join(lit(k) + ', ' + lit(x) for k, x in v.items()) + ')'
    raise TypeError(v)


def contains(x, y):
    if x is y:
        return True
    if isinstance(x, list):
        return any(contains(z, y) for z in x)
    if isinstance(x, dict):
        return any(contains(z, y) for z in x.values())
    return False


def scalar(rnd):
    return rnd.choice([0, 1, 2, 3, -1, -2, 5, 1.5, 'a', 'b', 'abc', '', None, True, False])


def gen_history(rnd, nops):
    """Generate an abstract history while running the specification model (to pick meaningful indices).
    Steps: ('new', name, kind, values) | ('alias', name, src) | ('call', fn, [('var', n)|('lit', v)], target, store)"""
    pool = {}
    steps = []

    def new_container(name):
        if rnd.random() < 0.6:
            vals = [rnd.choice([0, 1, 2, 2, 'a', 'b', None, True, 1.5]) for _ in range(rnd.randint(0, 4))]
            if rnd.random() < 0.15:
                # arrays of arrays of different lengths (neither a prefix of the other): element-wise order, not shortest-first
                vals = [list(rnd.choice([[2], [1, 5], [1], [1, 2, 3], [3, 0], [], [1, 5, 0], [2, 0, 0, 0], ['a'], [0, 9]])) for _ in range(rnd.randint(2, 5))]
            pool[name] = [list(v) if isinstance(v, list) else v for v in vals]
            steps.append(('new', name, 'A', vals))
        else:
            ks = rnd.sample(['a', 'b', 'c', 'd'], rnd.randint(0, 3))
            o = {k: rnd.choice([0, 1, 'x', None]) for k in ks}
            pool[name] = dict(o)
            steps.append(('new', name, 'O', [[k, v] for k, v in o.items()]))
    for i in range(3):
        new_container(f'c{i}')
    src = rnd.choice(['c0', 'c1', 'c2'])
    pool['c3'] = pool[src]
    steps.append(('alias', 'c3', src))
    for _ in range(nops):
        name = rnd.choice(NAMES)
        sig = SIG[name]
        args = []
        asrc = []

        kinds = []

        def add(v, var=None):
            args.append(v)
            asrc.append(('var', var) if var is not None else ('lit', v))
            kinds.append(cur[0])

        def container(kind):
            cands = [k for k in pool if isinstance(pool[k], list if kind == 'A' else dict)]
            if cands and rnd.random() < 0.9:
                k = rnd.choice(cands)
                add(pool[k], k)
            else:
                k = rnd.choice(sorted(pool))
                if rnd.random() < 0.5:
                    add(pool[k], k)
                else:
                    add(scalar(rnd))
        stop = False
        cur = ['?']
        for t in re.findall(r'[A-Za-z][?*]?', sig):
            opt, star, c = t.endswith('?'), t.endswith('*'), t[0]
            cur[0] = c
            if opt and rnd.random() < 0.4:
                break
            reps = rnd.randint(0, 3) if star else 1
            for _ in range(reps):
                if rnd.random() < 0.08:
                    add(scalar(rnd))
                    continue
                if c in 'AO':
                    container(c)
                elif c == 'i':
                    base = args[0] if args and isinstance(args[0], (list, str)) else []
                    y = rnd.random()
                    if y < 0.85:
                        add(rnd.randint(-2, len(base) + 2))
                    elif y < 0.93:
                        # not integers, however close: 2.9999999999999996 (0.3 / 0.1), k + 1e-10 - an invalid index, never "rounded"
                        k = rnd.randint(0, len(base) + 1)
                        add(rnd.choice([math.nextafter(float(k), -1.0) if k else 5e-324, math.nextafter(float(k), 1e9), k + 1e-10, k - 1e-12 if k else 1e-12, k + 0.5]))
                    else:
                        add(rnd.choice([1.5, None]))
                elif c == 'n':
                    add(rnd.choice([0, 1, 2, 3, 1.5, -1]))
                elif c == 's':
                    add(rnd.choice(STRS))
                elif c == 'k':
                    # (keys that look like array indexes are ordinary keys: an object lists its keys in insertion order)
                    add(rnd.choice(['a', 'b', 'c', 'd', 'zz', '10', '2', '0', '-1', '1.5']))
                elif c == 'c':
                    add(rnd.choice([65, 97, 0x1F600, 48, -1, 1.5, 'a']))
                elif c == 'v' and rnd.random() < 0.1 and any(isinstance(x, dict) and len(x) >= 2 for x in pool.values()):
                    # an EQUAL object built with its keys in another insertion order (a fresh value, not a member of the pool)
                    src = rnd.choice([x for _, x in sorted(pool.items()) if isinstance(x, dict) and len(x) >= 2])
                    try:
                        json.dumps(src)
                        add(dict(reversed(list(copy.deepcopy(src).items()))))
                    except (TypeError, ValueError):
                        add(scalar(rnd))
                elif c == 'v':
                    if rnd.random() < 0.25:
                        k = rnd.choice(sorted(pool))
                        tgt = args[0] if args else None
                        if tgt is not None and isinstance(tgt, (list, dict)) and contains(pool[k], tgt):
                            add(scalar(rnd))
                        else:
                            add(pool[k], k)
                    else:
                        add(scalar(rnd))
            if stop:
                break
        if rnd.random() < 0.05:
            add(scalar(rnd))
        cur[0] = '?'
        if args and rnd.random() < 0.05:
            # a MISSING argument: the call has fewer arguments than the function requires (or simply fewer than usual). An argument
            # that may be any value cannot be told from an omitted one (it reads as null), so only typed positions are cut off
            cut = rnd.randint(1, len(args))
            if 'v' not in kinds[len(args) - cut:]:
                del args[len(args) - cut:]
                del asrc[len(asrc) - cut:]
        # no cycles: nothing inserted into the first argument may (transitively) contain it
        if args and isinstance(args[0], (list, dict)):
            for j in range(1, len(args)):
                if isinstance(args[j], (list, dict)) and args[j] is not args[0] and contains(args[j], args[0]):
                    args[j] = 7
                    asrc[j] = ('lit', 7)
                elif args[j] is args[0] and name not in ('arrayExtend', 'objectAssign'):
                    args[j] = 8
                    asrc[j] = ('lit', 8)
        # any call whose result is a container may be kept in the pool (c4/c5) and mutated later: results are fresh unless the
        # function is documented to return its argument, whatever was computed before for the same arguments
        want = rnd.random() < 0.3
        slot = f'c{4 + rnd.randint(0, 1)}'
        res = apply_call(pool, name, args, 'r', False)
        store = want and isinstance(res, (list, dict))
        tgt = slot if store else 'r'
        if store:
            pool[tgt] = res
        steps.append(('call', name, asrc, tgt, store))
    return steps


def apply_call(pool, name, args, tgt, store):
    try:
        res = model_call(name, args)
    except BadWith as b:
        res = b.v
    except Bad:
        res = FAIL.get(name)
    if store:
        pool[tgt] = res
    return res


def to_script(steps):
    lines = []
    names = set()
    for st in steps:
        if st[0] == 'new':
            _, name, kind, vals = st
            names.add(name)
            if kind == 'A':
                lines.append(f"{name} = arrayNew({', '.join(lit(v) for v in vals)})")
            else:
                lines.append(f"{name} = objectNew({', '.join(lit(k) + ', ' + lit(v) for k, v in vals)})")
        elif st[0] == 'alias':
            names.add(st[1])
            lines.append(f'{st[1]} = {st[2]}')
        else:
            _, fn, asrc, tgt, store = st
            call = f"{fn}({', '.join(a[1] if a[0] == 'var' else lit(a[1]) for a in asrc)})"
            lines.append(f'{tgt} = {call}')
            # the pool listing is by a fixed set of names; unset names read as null in both worlds
            lines.append(f"systemLog(jsonStringify(arrayNew({tgt}, arrayNew(c0, c1, c2, c3, c4, c5))))")
    return '\n'.join(lines)


def run_model(steps, bool_num=False, stop_on_cycle=False):
    """Replay the abstract history on a fresh shadow pool; returns the expected [result, pool] per call step."""
    ref_seq.BOOL_NUM[0] = bool_num
    try:
        pool = {}
        out = []
        for st in steps:
            if st[0] == 'new':
                _, name, kind, vals = st
                pool[name] = [list(v) if isinstance(v, list) else v for v in vals] if kind == 'A' else {k: v for k, v in vals}
            elif st[0] == 'alias':
                pool[st[1]] = pool[st[2]]
            else:
                _, fn, asrc, tgt, store = st
                args = [pool.get(a[1]) if a[0] == 'var' else a[1] for a in asrc]
                try:
                    res = apply_call(pool, fn, args, tgt, store)
                except RecursionError:
                    if stop_on_cycle:
                        return out
                    raise
                shown = res
                snap = [pool.get(f'c{i}') for i in range(6)]
                try:
                    out.append((fn, res if res == ('ANY',) else json.loads(ref_seq.jtext(shown)), json.loads(ref_seq.jtext(snap))))
                except RecursionError:
                    if stop_on_cycle:
                        return out
                    raise
        return out
    finally:
        ref_seq.BOOL_NUM[0] = False


def jeq(a, b):
    if isinstance(a, bool) or isinstance(b, bool):
        return a is b
    if isinstance(a, (int, float)) and isinstance(b, (int, float)):
        return a == b
    if type(a) is not type(b):
        return False
    if isinstance(a, list):
        return len(a) == len(b) and all(jeq(x, y) for x, y in zip(a, b))
    if isinstance(a, dict):
        return list(a.keys()) == list(b.keys()) and all(jeq(a[k], b[k]) for k in a) if False else (a.keys() == b.keys() and all(jeq(a[k], b[k]) for k in a))
    return a == b


def compare(logs, exp):
    """Index of the first differing step, or None."""
    if len(logs) != len(exp):
        return min(len(logs), len(exp))
    for i, (line, (fn, res, snap)) in enumerate(zip(logs, exp)):
        got = json.loads(line)
        if not jeq(got[1], snap):
            return i
        if res != ('ANY',) and not jeq(got[0], res):
            return i
    return None


def check_history(steps, acc, api, case=None):
    bare_script, lib = api
    text = to_script(steps)
    exp = run_model(steps)
    logs = []
    case = case or {'steps': refval.enc(steps) if False else json.loads(json.dumps(steps)), 'text': text}
    try:
        with core.alarm(20):
            bare_script.execute_script(bare_script.parse_script(text), {'logFn': logs.append, 'globals': {}})
    except core.CaseTimeout:
        acc.timeouts += 1
        return
    except Exception as exc:  # pylint: disable=broad-except
        acc.case(text, True)
        acc.violation('history-raised', f'{type(exc).__name__}: {exc}\n{text}', case)
        return
    ncalls = len(exp)
    ok_mut = sum(1 for fn, res, _ in exp if fn in ('arrayPush', 'arraySet', 'arrayDelete', 'arrayPop', 'arrayShift', 'arrayExtend', 'arraySort', 'objectSet', 'objectDelete', 'objectAssign'))
    acc.case(text, ok_mut >= 5)
    acc.count('steps_observed', ncalls)
    for fn, _, _ in exp:
        acc.cover('functions', fn)
    bad = compare(logs, exp)
    if bad is None and core.case_hash(text) % 4 == 0:
        # the same history in debug mode with a log function: failing calls are REPORTED, results and containers are the same
        dlogs = []
        try:
            with core.alarm(20):
                bare_script.execute_script(bare_script.parse_script(text), {'logFn': dlogs.append, 'globals': {}, 'debug': True})
        except core.CaseTimeout:
            dlogs = None
        except Exception as exc:  # pylint: disable=broad-except
            acc.violation('history-raised', f'debug mode: {type(exc).__name__}: {exc}\n{text}', case)
            return
        if dlogs is not None:
            acc.count('debug_mode_histories')
            plain = [l for l in dlogs if not l.startswith('BareScript:')]
            if plain != logs:
                k = next((i for i, (a, b) in enumerate(zip(plain, logs)) if a != b), min(len(plain), len(logs)))
                acc.violation('history-depends-on-debug-mode', f'step {k}: debug mode {plain[k] if k < len(plain) else None!r:.300} vs {logs[k] if k < len(logs) else None!r:.300}\n{text[:1200]}', case)
                return
    if bad is None:
        acc.count('histories_agree')
        if len(acc.samples) < 2:
            acc.sample({'script_head': text.split('\n')[:14], 'steps': ncalls})
        return
    try:
        exp14 = run_model(steps, bool_num=True)
        cyc = False
    except RecursionError:
        # under finding F14 a boolean index is accepted, so the no-cycle construction of the generator (made with the strict
        # model) does not hold: the history built a cyclic container. Compare the prefix before the first cyclic snapshot.
        exp14 = run_model(steps, bool_num=True, stop_on_cycle=True)
        cyc = True
    if (compare(logs, exp14) is None) if not cyc else (bad < len(exp14) and compare(logs[:len(exp14)], exp14) is None):
        fn = exp[bad][0] if bad < len(exp) else '?'
        acc.known_finding('F14', f'{fn} step {bad}: {text.split(chr(10))[4 + 2 * bad] if 4 + 2 * bad < len(text.split(chr(10))) else ""}')
        return
    fn, res, snap = exp[bad] if bad < len(exp) else ('?', None, None)
    got = json.loads(logs[bad]) if bad < len(logs) else None
    call_line = [l for l in text.split('\n') if not l.startswith('systemLog')][4 + bad] if True else ''
    acc.violation('differs-from-sequence-map-string-model', f'step {bad}: {call_line}\n got result/pool {got!r:.600}\n expected result {res!r:.200} pool {snap!r:.400}\n{text[:1500]}', case)


def run_histories(spec, acc, api):
    base = spec['seed'] * 1000003 + spec['shard'] * 7919 + 83
    for i in range(spec['n']):
        rnd = random.Random(base + i)
        try:
            steps = gen_history(rnd, spec['nops'])
        except RecursionError:
            continue
        check_history(steps, acc, api)


FRAGMENTS = ['a', 'b', 'x', '{2}', '{1,2}', '{0,}', '{,3}', '{1}', '*', '+', '?', '.', '(', ')', '(?:', '(?=a)', '[a-c]', '[^a]', '\\d', '\\w+', '\\', '^', '$', '|', '-', ' ', '#', '\n',
             '(?i)', '\\1', '\\b', '{', '}', ',', '0', '12', '\\k<id>', '\\g<1>', '\\p{L}', '(?P<n>', '\\N{DASH}', '\\x41', '\\u0041', '%', '%41', '%2F', '%e2%82%ac', '25%25', '%zz', '%ff', '+', '&a=', '?q=', '://', '#x']


def run_escapes(spec, acc, api):
    bare_script, lib = api
    rnd = random.Random(spec['seed'] * 7919 + 89)
    chars = list('ab012.*+?()[]{}|^$\\/-,: \n\t"\'<>#%&=;@~`') + ['é', ' ', '\U0001F600', 'ß', '\x00']
    for i in range(spec['n']):
        if i % 3 == 2:
            # texts that READ like regular expressions (quantifier braces, classes, anchors, escapes)
            s = ''.join(rnd.choice(FRAGMENTS) for _ in range(rnd.randint(1, 4)))
        else:
            s = ''.join(rnd.choice(chars) for _ in range(rnd.randint(0, 8)))
        acc.case('esc:' + s, len(s) >= 1)
        case = {'s': s}
        try:
            pat = lib['regexEscape']([s], None)
            rx = lib['regexNew']([pat], None)
        except Exception as exc:  # pylint: disable=broad-except
            acc.violation('regexEscape-raised', f'{s!r}: {exc!r}', case)
            continue
        if rx is None or rx.fullmatch(s) is None:
            acc.violation('regexEscape-does-not-match-itself', f'{s!r} -> {pat!r}', case)
            continue
        for _ in range(20):
            t = list(s)
            op = rnd.random()
            if t and op < 0.4:
                t[rnd.randrange(len(t))] = rnd.choice(chars)
            elif op < 0.7:
                t.insert(rnd.randint(0, len(t)), rnd.choice(chars))
            elif t:
                del t[rnd.randrange(len(t))]
            t = ''.join(t)
            if _ == 0 and len(s) >= 2:
                t = s[0] * 2 + s[1:] if rnd.random() < 0.5 else s[:-1]  # what a quantifier / optional reading of the text would match
            if t != s and rx.fullmatch(t) is not None:
                acc.violation('regexEscape-matches-neighbour', f'{s!r} -> {pat!r} also matches {t!r}', case)
                break
        acc.count('regex_escape_checks')
        for fn, safe_extra in (('urlEncode', "':/&+"), ('urlEncodeComponent', "'")):
            enc = lib[fn]([s], None)
            if not isinstance(enc, str):
                if any(0xD800 <= ord(c) < 0xE000 for c in s):
                    continue
                acc.violation('urlEncode-failed', f'{fn}({s!r}) = {enc!r}', case)
                continue
            if urllib.parse.unquote(enc) != s:
                acc.violation('urlEncode-not-reversible', f'{fn}({s!r}) = {enc!r} -> {urllib.parse.unquote(enc)!r}', case)
            if not re.fullmatch(r"[A-Za-z0-9_.~\-%':/&+]*", enc):
                acc.violation('urlEncode-unsafe-output', f'{fn}({s!r}) = {enc!r}', case)
            acc.count('url_encode_checks')
    # a string with an unpaired surrogate (stringFromCharCode(55357) builds one) has no UTF-8 form: the encoders answer null - never a
    # text that decodes to something else
    for s in ('a\ud83db', '\ud800', 'x\udfff', '\udc00tail', 'ok\ud83d'):
        for fn in ('urlEncode', 'urlEncodeComponent'):
            acc.case(('lone-surrogate', fn, s.encode('utf-16', 'surrogatepass').hex()), True)
            try:
                enc = lib[fn]([s], None)
            except Exception as exc:  # pylint: disable=broad-except
                enc = None if type(exc).__name__ in ('UnicodeEncodeError', 'ValueArgsError') else exc
            try:
                reversible = isinstance(enc, str) and urllib.parse.unquote(enc, errors='surrogatepass') == s
            except (UnicodeError, ValueError):
                reversible = False
            if enc is not None and not reversible:
                acc.violation('urlEncode-not-reversible', f'{fn}(<string with an unpaired surrogate>) = {enc!r}', {'s': s.encode('utf-16', 'surrogatepass').hex()})
            acc.count('url_encode_checks')
    # the same functions reached through a partial application (systemPartial binds leading arguments): every call of the partial is a
    # call of the function with the bound arguments followed by the call's own - also after a call that passed none
    for fn, bound, calls in (('stringIndexOf', ['abcabc', 'b'], [[], [3], [], [2.0], []]), ('arraySlice', [[1, 2, 3, 4, 5]], [[], [1], [1, 3], [], [4]]),
                             ('arrayNew', [7], [[], [8], [], [9, 10]]), ('stringSlice', ['hello world', 2], [[], [5], [], [4]]), ('arrayJoin', [['a', 'b']], [[','], [], ['-'], [',']]),
                             ('objectGet', [{'k': 1}, 'zz'], [[], ['dflt'], [], [None]]), ('arrayIndexOf', [[5, 6, 5, 6], 6], [[], [2], [], [1.0]])):
        part = lib['systemPartial']([lib[fn]] + copy.deepcopy(bound), None)
        for k, extra in enumerate(calls):
            acc.case(('partial', fn, k), True)
            acc.count('partial_application_calls')
            try:
                want = ('ok', lib[fn](copy.deepcopy(bound) + list(extra), None))
            except Exception as exc:  # pylint: disable=broad-except
                want = ('failed', getattr(exc, 'return_value', None))
            try:
                got = ('ok', part(list(extra), None))
            except Exception as exc:  # pylint: disable=broad-except
                got = ('failed', getattr(exc, 'return_value', None))
            if got != want:
                acc.violation('partial-call-differs-from-direct-call', f'call {k + 1} of systemPartial({fn}, {bound!r:.80})({extra!r}) = {got!r:.120}; the direct call gives {want!r:.120}', {'fn': fn, 'call': k})
                break
    # wrong-typed arguments
    for fn in ('regexEscape', 'urlEncode', 'urlEncodeComponent'):
        for bad in ([], [None], [1.0], [['a']], ['a', 'b']):
            try:
                lib[fn](list(bad), None)
                acc.violation('wrong-typed-accepted', f'{fn}({bad!r}) did not fail', {'fn': fn})
            except Exception as exc:  # pylint: disable=broad-except
                if type(exc).__name__ != 'ValueArgsError' or getattr(exc, 'return_value', 'x') is not None:
                    acc.violation('wrong-typed-failure-value', f'{fn}({bad!r}): {exc!r}', {'fn': fn})
    acc.sample({'regexEscape_example': ['a.b*', lib['regexEscape'](['a.b*'], None)], 'urlEncode_example': ['a b/ü', lib['urlEncode'](['a b/ü'], None)]}, limit=1)


COMPARATORS = {
    'a - b': lambda a, b: a - b,
    'b - a': lambda a, b: b - a,
    '(a - b) * 0.5': lambda a, b: (a - b) * 0.5,
    '(a - b) / 8': lambda a, b: (a - b) / 8,
    'systemCompare(a, b)': lambda a, b: (a > b) - (a < b),
    'if(a < b, 0 - 0.25, if(a > b, 0.25, 0))': lambda a, b: -0.25 if a < b else (0.25 if a > b else 0),
    'mathFloor(a) - mathFloor(b)': lambda a, b: math.floor(a) - math.floor(b),
}


def run_comparators(spec, acc, api):
    """arraySort with a script comparison function: the array itself (seen through an alias) ends up ordered by the sign of
    the comparator's result, stably; fractional results count."""
    import functools
    bare_script, lib = api
    rnd = random.Random(spec['seed'] * 7919 + 131)
    for _ in range(spec['n']):
        expr, pyf = rnd.choice(sorted(COMPARATORS.items()))
        vals = [rnd.choice([1, 2, 3, 1.5, 1.25, 1.75, 2.5, 0.5, 0.25, 10, 1.125]) for _ in range(rnd.randint(2, 9))]
        text = (f"function cmpf(a, b):\n    return {expr}\nendfunction\narr = arrayNew({', '.join(lit(v) for v in vals)})\nalias = arr\n"
                "res = arraySort(arr, cmpf)\nsnap = arrayCopy(res)\narrayPush(res, 'tail')\narraySet(alias, 0, 'head')\n"
                "return arrayNew(snap, snap, snap, res, alias, arr, systemIs(res, arr))")
        acc.case(text, True)
        try:
            got = bare_script.execute_script(bare_script.parse_script(text), {'globals': {}})
        except Exception as exc:  # pylint: disable=broad-except
            acc.violation('comparator-sort-raised', f'{type(exc).__name__}: {exc}\n{text}', {'text': text})
            continue
        want = sorted(vals, key=functools.cmp_to_key(lambda a, b: (pyf(a, b) > 0) - (pyf(a, b) < 0)))
        # the returned array IS the passed array: later edits through the result, the alias or the variable are one history
        after = ['head'] + want[1:] + ['tail']
        if not (isinstance(got, list) and len(got) == 7 and all(jeq(x, want) for x in got[:3])):
            acc.violation('comparator-sort', f'{expr!r} on {vals!r}: result/alias/array = {got!r}, expected {want!r}', {'text': text})
        elif not all(jeq(x, after) for x in got[3:6]) or got[6] is not True:
            acc.violation('sort-result-is-not-the-passed-array', f'{expr!r} on {vals!r}: after pushing to the result and setting through the alias: result/alias/array = {got[3:6]!r} systemIs={got[6]!r}, expected {after!r}', {'text': text})
        acc.count('comparator_sorts')


def run_shard(spec, acc):
    api = _api()
    if spec['part'] == 'comparators':
        run_comparators(spec, acc, api)
        return
    if spec['part'] == 'histories':
        run_histories(spec, acc, api)
    else:
        run_escapes(spec, acc, api)


def replay(spec, acc):
    api = _api()
    case = spec['case']
    if 'steps' not in case:
        acc.note_inconclusive('replay by re-running: ./check C15 quick')
        return
    steps = [tuple(s[:2]) + tuple(s[2:]) for s in case['steps']]
    steps = [tuple(s) if s[0] != 'call' else ('call', s[1], [tuple(a) for a in s[2]], s[3], s[4]) for s in steps]
    check_history(steps, acc, api, case)
