"""Reference evaluator of expression models (independent of /repo's evaluator).

Lookup order: locals -> globals -> (expression mode only) built-in alias table.
`if()` is lazy; && and || return an operand and short-circuit; arguments left to right, once.
Typed operator table: number means int/float but not bool.
"""
import datetime

from .refval import isnum, ndt, rcmp, rstr, rtype, truthy

# Alias table copied from the published expression-library documentation (NOT from EXPRESSION_FUNCTION_MAP)
ALIASES = {
    'abs': 'mathAbs', 'acos': 'mathAcos', 'asin': 'mathAsin', 'atan': 'mathAtan', 'atan2': 'mathAtan2',
    'ceil': 'mathCeil', 'charCodeAt': 'stringCharCodeAt', 'cos': 'mathCos', 'date': 'datetimeNew',
    'day': 'datetimeDay', 'endsWith': 'stringEndsWith', 'indexOf': 'stringIndexOf', 'fixed': 'numberToFixed',
    'floor': 'mathFloor', 'fromCharCode': 'stringFromCharCode', 'hour': 'datetimeHour',
    'lastIndexOf': 'stringLastIndexOf', 'len': 'stringLength', 'lower': 'stringLower', 'ln': 'mathLn',
    'log': 'mathLog', 'max': 'mathMax', 'min': 'mathMin', 'millisecond': 'datetimeMillisecond',
    'minute': 'datetimeMinute', 'month': 'datetimeMonth', 'now': 'datetimeNow', 'parseInt': 'numberParseInt',
    'parseFloat': 'numberParseFloat', 'pi': 'mathPi', 'rand': 'mathRandom', 'replace': 'stringReplace',
    'rept': 'stringRepeat', 'round': 'mathRound', 'second': 'datetimeSecond', 'sign': 'mathSign',
    'sin': 'mathSin', 'slice': 'stringSlice', 'sqrt': 'mathSqrt', 'startsWith': 'stringStartsWith',
    'text': 'stringNew', 'tan': 'mathTan', 'today': 'datetimeToday', 'trim': 'stringTrim',
    'upper': 'stringUpper', 'year': 'datetimeYear',
}


try:  # reference signals that may cross the real evaluator must derive from its runtime error class,
    # because the real call wrapper swallows every other Exception (probe: a plain Exception became null)
    from bare_script.runtime import BareScriptRuntimeError as _Base
except Exception:  # pylint: disable=broad-except
    _Base = Exception


Propagate = _Base


class RefRuntimeError(_Base):
    """Reference-side runtime error (message mirrors the documented runtime error texts)."""

    def __init__(self, message=''):
        super().__init__(message)


class Domain(RefRuntimeError):
    """Arithmetic domain error: the result is not fixed by the operator semantics (C05 owns containment)."""


class Unspecified(RefRuntimeError):
    """The statement does not fix the result (e.g. % with negative operands)."""


class Diverge(RefRuntimeError):
    """Reference ran out of fuel."""


BIG_BITS = 2048
BIG_STR = 200000


def arith(op, a, b):
    try:
        if op == '+':
            r = a + b
        elif op == '-':
            r = a - b
        elif op == '*':
            r = a * b
        elif op == '/':
            r = a / b
        elif op == '%':
            if b == 0:
                raise Domain()
            if a < 0 or b < 0:
                raise Unspecified()
            r = a % b
        else:
            if isinstance(a, int) and isinstance(b, int) and (abs(b) > 4096 and abs(a) > 1):
                raise Domain()
            r = a ** b
    except (ZeroDivisionError, OverflowError, ValueError) as exc:
        raise Domain() from exc
    if isinstance(r, complex):
        raise Domain()
    if isinstance(r, int) and r.bit_length() > BIG_BITS:
        raise Unspecified('huge integer')  # single-statement resource exhaustion is outside every property
    return r


def dtadd(d, ms):
    try:
        return ndt(d) + datetime.timedelta(milliseconds=ms)
    except (OverflowError, ValueError) as exc:
        raise Domain() from exc


def dtsub(a, b):
    td = ndt(a) - ndt(b)
    us = (td.days * 86400 + td.seconds) * 1000000 + td.microseconds
    q, r = divmod(abs(us), 1000)
    ms = q + (1 if r >= 500 else 0)
    return float(ms if us >= 0 else -ms)


def binop(op, a, b, bool_num=False):
    if bool_num:  # variant used only to classify finding F14 (booleans accepted as numbers)
        if isinstance(a, bool) and (isnum(b) or isinstance(b, bool) or rtype(b) == 'datetime') and op in ARITH:
            a = int(a)
        if isinstance(b, bool) and (isnum(a) or rtype(a) == 'datetime') and op in ARITH:
            b = int(b)
    if op in ('==', '!=', '<', '<=', '>', '>='):
        c = rcmp(a, b)
        return {'==': c == 0, '!=': c != 0, '<': c < 0, '<=': c <= 0, '>': c > 0, '>=': c >= 0}[op]
    if op == '+':
        if isnum(a) and isnum(b):
            return arith(op, a, b)
        if rtype(a) == 'string' or rtype(b) == 'string':
            r = rstr(a) + rstr(b)
            if len(r) > BIG_STR:
                raise Unspecified('huge string')
            return r
        if rtype(a) == 'datetime' and isnum(b):
            return dtadd(a, b)
        if isnum(a) and rtype(b) == 'datetime':
            return dtadd(b, a)
        return None
    if op == '-':
        if isnum(a) and isnum(b):
            return arith(op, a, b)
        if rtype(a) == 'datetime' and rtype(b) == 'datetime':
            return dtsub(a, b)
        return None
    if isnum(a) and isnum(b):
        return arith(op, a, b)
    return None


ARITH = ('+', '-', '*', '/', '%', '**')


def unop(op, v, bool_num=False):
    if op == '!':
        return not truthy(v)
    if isnum(v) or (bool_num and isinstance(v, bool)):
        return -v
    return None


class RefEval:
    """env: .globals (dict), .options (dict handed to called functions), .library (name -> callable, used for
    the alias table), .debug_log(msg) optional, .error_class (exception type that must propagate through calls)."""

    def __init__(self, globals_, options, library, propagate, builtins=False, on_call_fail=None, bool_num=False):
        self.bool_num = bool_num
        self.g = globals_
        self.options = options
        self.library = library
        self.propagate = propagate
        self.builtins = builtins
        self.on_call_fail = on_call_fail

    def ev(self, e, loc=None):
        (k, v), = e.items()
        if k == 'number':
            return v
        if k == 'string':
            return v
        if k == 'variable':
            if v == 'null':
                return None
            if v == 'true':
                return True
            if v == 'false':
                return False
            if loc is not None and v in loc:
                return loc[v]
            return self.g.get(v)
        if k == 'group':
            return self.ev(v, loc)
        if k == 'unary':
            return unop(v['op'], self.ev(v['expr'], loc), self.bool_num)
        if k == 'binary':
            op = v['op']
            left = self.ev(v['left'], loc)
            if op == '&&':
                return left if not truthy(left) else self.ev(v['right'], loc)
            if op == '||':
                return left if truthy(left) else self.ev(v['right'], loc)
            right = self.ev(v['right'], loc)
            return binop(op, left, right, self.bool_num)
        if k == 'function':
            name = v['name']
            argexprs = v.get('args') or []
            if name == 'if':
                cond = self.ev(argexprs[0], loc) if len(argexprs) >= 1 else False
                pick = (argexprs[1] if len(argexprs) >= 2 else None) if truthy(cond) else \
                    (argexprs[2] if len(argexprs) >= 3 else None)
                return self.ev(pick, loc) if pick is not None else None
            args = [self.ev(a, loc) for a in argexprs]
            if loc is not None and name in loc:
                fn = loc[name]
            elif name in self.g:
                fn = self.g[name]
            elif self.builtins and name in ALIASES:
                fn = self.library[ALIASES[name]]
            else:
                fn = None
            if fn is None:
                raise RefRuntimeError(f'Undefined function "{name}"')
            return self.call(name, fn, args)
        raise AssertionError(k)

    def call(self, name, fn, args):
        if fn is self.library.get('systemPartial') and len(args) >= 2 and callable(args[0]):
            # independent model of partial application: the bound arguments come first, in binding order (also for a partial of a
            # partial), every call gets its own argument list
            inner, bound = args[0], list(args[1:])
            return lambda more, options, inner=inner, bound=bound: inner(list(bound) + list(more), options)
        try:
            return fn(args, self.options)
        except self.propagate:
            raise
        except (RefRuntimeError, Domain, Unspecified):
            raise
        except Exception as exc:  # pylint: disable=broad-except
            if self.on_call_fail is not None:
                self.on_call_fail(name, exc)
            return getattr(exc, 'return_value', None) if type(exc).__name__ == 'ValueArgsError' else None
