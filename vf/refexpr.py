"""Reference expression parser (precedence climbing) and printers. Independent of /repo.

Grammar (from the language description):
  expr   := unary (binop unary)*          7 precedence levels, all left-associative
  unary  := ('!'|'-') unary | '(' expr ')' | NAME '(' [expr (',' expr)*] ')' | NUMBER | STRING | NAME | '[' bracket-name ']'
  NUMBER := ['+'] digits ['.' digits*] ['e' ('+'|'-') digits]
  NAME   := [A-Za-z_]\\w*      (call position needs >= 2 characters; 1-character callee is outside the checked vocabulary)
"""
import re

PREC = {'**': 7, '*': 6, '/': 6, '%': 6, '+': 5, '-': 5, '<=': 4, '<': 4, '>=': 4, '>': 4, '==': 3, '!=': 3, '&&': 2, '||': 1}
OPS = list(PREC)
_BINOPS = sorted(PREC, key=len, reverse=True)
_NUM = re.compile(r'\d+(?:\.\d*)?(?:e[+-]\d+)?')
_NAME = re.compile(r'[A-Za-z_]\w*')


class RefSyntax(Exception):
    def __init__(self, pos, kind):
        super().__init__(f'{kind} at {pos}')
        self.pos = pos
        self.kind = kind


class _P:
    def __init__(self, text):
        self.t = text
        self.n = len(text)

    def ws(self, i):
        while i < self.n and self.t[i] in ' \t\r\n\f\v':
            i += 1
        return i

    def binop_at(self, i):
        for op in _BINOPS:
            if self.t.startswith(op, i):
                return op
        return None

    def expr(self, i, minprec=1):
        left, i = self.unary(i)
        return self.climb(left, i, minprec)

    def climb(self, left, i, minprec):
        while True:
            j = self.ws(i)
            op = self.binop_at(j)
            if op is None or PREC[op] < minprec:
                return left, i
            right, k = self.unary(j + len(op))
            # bind tighter operators on the right first
            while True:
                j2 = self.ws(k)
                op2 = self.binop_at(j2)
                if op2 is None or PREC[op2] <= PREC[op]:
                    break
                right, k = self.climb(right, k, PREC[op] + 1)
            left = {'binary': {'op': op, 'left': left, 'right': right}}
            i = k

    def unary(self, i):
        j = self.ws(i)
        if j >= self.n:
            raise RefSyntax(j, 'syntax')
        c = self.t[j]
        if c == '(':
            inner, k = self.expr(j + 1)
            k2 = self.ws(k)
            if k2 >= self.n or self.t[k2] != ')':
                raise RefSyntax(j, 'unmatched')
            return {'group': inner}, k2 + 1
        if c in '!-':
            e, k = self.unary(j + 1)
            return {'unary': {'op': c, 'expr': e}}, k
        m = _NAME.match(self.t, j)
        if m:
            name = m.group(0)
            k = self.ws(m.end())
            if len(name) >= 2 and k < self.n and self.t[k] == '(':
                args = []
                k += 1
                while True:
                    k2 = self.ws(k)
                    if k2 < self.n and self.t[k2] == ')':
                        return {'function': {'name': name, 'args': args}}, k2 + 1
                    if args:
                        if k2 >= self.n or self.t[k2] != ',':
                            raise RefSyntax(k2, 'syntax')
                        k = k2 + 1
                    a, k = self.expr(k)
                    args.append(a)
            return {'variable': name}, m.end()
        m = _NUM.match(self.t, j)
        if m:
            return {'number': float(m.group(0))}, m.end()
        if c == '+':
            # a plus-signed number literal (the sign must touch the digits); a minus sign is always the unary operator
            m = _NUM.match(self.t, j + 1)
            if m:
                return {'number': float(m.group(0))}, m.end()
        if c in '\'"':
            k = j + 1
            out = []
            while k < self.n:
                ch = self.t[k]
                if ch == '\\' and k + 1 < self.n and self.t[k + 1] in ('\\', c):
                    out.append(self.t[k + 1])
                    k += 2
                elif ch == c:
                    return {'string': ''.join(out)}, k + 1
                else:
                    out.append(ch)
                    k += 1
            raise RefSyntax(j, 'syntax')
        if c == '[':
            k = self.ws(j + 1)
            out = []
            while k < self.n:
                ch = self.t[k]
                if ch == '\\' and k + 1 < self.n and self.t[k + 1] in ('\\', ']'):
                    out.append(self.t[k + 1])
                    k += 2
                elif ch == ']':
                    if not out:
                        raise RefSyntax(j, 'syntax')
                    return {'variable': ''.join(out)}, k + 1
                else:
                    out.append(ch)
                    k += 1
            raise RefSyntax(j, 'syntax')
        raise RefSyntax(j, 'syntax')


def parse(text):
    """Return the model tree, or raise RefSyntax(pos of the first character that cannot be consumed)."""
    p = _P(text)
    tree, i = p.expr(0)
    j = p.ws(i)
    if j != p.n:
        raise RefSyntax(j, 'syntax')
    return tree


# ------------------------------------------------------------------ printers

def num_text(v):
    s = repr(float(v))
    if s.endswith('.0'):
        s = s[:-2]
    if 'e' in s:
        m, e = s.split('e')
        if e[0] not in '+-':
            e = '+' + e
        s = m + 'e' + e
    return s


def str_text(s, q="'"):
    return q + s.replace('\\', '\\\\').replace(q, '\\' + q) + q


def estr(e, sp=' '):
    """Minimal-parenthesis text of a group-free tree; parse(estr(e)) evaluates like e.
    Negative number literals are printed as (0 - n)."""
    (k, v), = e.items()
    if k == 'number':
        if v < 0 or (v == 0 and str(v).startswith('-')):
            return '(0' + sp + '-' + sp + num_text(-v) + ')'
        return num_text(v)
    if k == 'string':
        return str_text(v)
    if k == 'variable':
        return v if _NAME.fullmatch(v) else '[' + v.replace('\\', '\\\\').replace(']', '\\]') + ']'
    if k == 'function':
        return v['name'] + '(' + (',' + sp).join(estr(a, sp) for a in v.get('args') or []) + ')'
    if k == 'group':
        return '(' + estr(v, sp) + ')'
    if k == 'unary':
        return v['op'] + _wrap(v['expr'], 9, sp)
    p = PREC[v['op']]
    return _wrap(v['left'], p, sp) + sp + v['op'] + sp + _wrap(v['right'], p + 1, sp)


def _wrap(e, p, sp):
    (k, v), = e.items()
    if k == 'binary' and PREC[v['op']] < p:
        return '(' + estr(e, sp) + ')'
    return estr(e, sp)


def with_groups(e):
    """The tree a correct parser returns for estr(e): group nodes where estr printed parentheses."""
    (k, v), = e.items()
    if k in ('string', 'variable'):
        return {k: v}
    if k == 'number':
        if v < 0 or (v == 0 and str(v).startswith('-')):
            return {'group': {'binary': {'op': '-', 'left': {'number': 0.0}, 'right': {'number': float(-v)}}}}
        return {'number': float(v)}
    if k == 'function':
        return {'function': {'name': v['name'], 'args': [with_groups(a) for a in v.get('args') or []]}}
    if k == 'group':
        return {'group': with_groups(v)}
    if k == 'unary':
        return {'unary': {'op': v['op'], 'expr': _wg(v['expr'], 9)}}
    p = PREC[v['op']]
    return {'binary': {'op': v['op'], 'left': _wg(v['left'], p), 'right': _wg(v['right'], p + 1)}}


def _wg(e, p):
    (k, v), = e.items()
    if k == 'binary' and PREC[v['op']] < p:
        return {'group': with_groups(e)}
    return with_groups(e)


def strip_groups(e):
    (k, v), = e.items()
    if k == 'group':
        return strip_groups(v)
    if k == 'unary':
        return {'unary': {'op': v['op'], 'expr': strip_groups(v['expr'])}}
    if k == 'binary':
        return {'binary': {'op': v['op'], 'left': strip_groups(v['left']), 'right': strip_groups(v['right'])}}
    if k == 'function':
        out = {'name': v['name']}
        if 'args' in v:
            out['args'] = [strip_groups(a) for a in v['args']]
        return {'function': out}
    return {k: v}
