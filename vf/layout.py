"""Meaning-preserving respellings of a script text: blanks inside a line (between any two tokens, before the colon of a block
header, around commas and parentheses), indentation and trailing blanks. The statement sequence and every expression are the
same under each respelling, so behaviour and label structure must be the same (only `-1` may turn into `-(1)`)."""
import re

_TOKEN = re.compile(r"""\s+|'(?:\\.|[^'\\])*'|"(?:\\.|[^"\\])*"|\[(?:\\\]|[^\]])*\]|\.\.\.|\*\*|<=|>=|==|!=|&&|\|\||\d+(?:\.\d*)?(?:e[+-]\d+)?|[A-Za-z_]\w*|.""")
_INCLUDE = re.compile(r'^\s*include\s')
_COMMENT = re.compile(r'^\s*(?:#.*)?$')
BLANKS = [' ', '  ', '\t', ' \t', '   ']


def respell_line(line, rnd, p=0.35, asyncs=True):
    if _COMMENT.match(line) or _INCLUDE.match(line) or line.rstrip().endswith('\\'):
        return line
    body = line.lstrip()
    lead = line[:len(line) - len(body)]
    if asyncs and re.match(r'function\s', body) and rnd.random() < 0.3:
        body = 'async ' + body  # an async function is called like any other in this implementation
    toks = [t.group(0) for t in _TOKEN.finditer(body)]
    if any(len(t) == 1 and t in '\'"[' for t in toks):
        return line  # an unbalanced quote / bracket on this line: leave it alone
    out = []
    words = [t for t in toks if not t.isspace()]
    for i, t in enumerate(words):
        out.append(t)
        if i == len(words) - 1:
            break
        nxt = words[i + 1]
        had_blank = _had_blank(toks, i)
        if had_blank:
            out.append(rnd.choice(BLANKS) if rnd.random() < p else ' ')
        elif rnd.random() < p and _may_insert(t, nxt):
            out.append(rnd.choice(BLANKS))
    mode = rnd.random()
    if mode < 0.25:
        lead = ''
    elif mode < 0.45:
        lead = '\t' * rnd.randint(0, 3)
    elif mode < 0.6:
        lead = ' ' * rnd.randint(0, 7)
    trail = rnd.choice(['', '', ' ', '\t', '  '])
    return lead + ''.join(out) + trail


def _had_blank(toks, word_ix):
    """Was there a blank after the word_ix-th non-blank token?"""
    n = -1
    for k, t in enumerate(toks):
        if not t.isspace():
            n += 1
            if n == word_ix:
                return k + 1 < len(toks) and toks[k + 1].isspace()
    return False


def _may_insert(a, b):
    # adjacent tokens between which a blank may be inserted: around punctuation and operators (never inside a number such as
    # `1.5` / `2e+5`, which the tokenizer keeps whole, and never between a unary minus and its digits: `-1` stays a literal)
    if a == '-' and b[:1].isdigit():
        return False
    return not (a[-1:].isalnum() or a[-1:] == '_') or not (b[:1].isalnum() or b[:1] == '_')


def respell(text, rnd, p=0.35, asyncs=True):
    return '\n'.join(respell_line(ln, rnd, p, asyncs) for ln in text.split('\n'))
