#!/bin/sh
# Run the repository suite with the guard off and compare with BASELINE.json (410 stable passes, 8 always-fail)
cd /repo && env -u BARE_SCRIPT_PY_VERIF /venv/bin/python -m pytest -q -p no:cacheprovider --timeout=900 --junitxml=/tmp/repotest.$$.xml >/dev/null 2>&1
python3 - /tmp/repotest.$$.xml <<'PY'
import sys, json, xml.etree.ElementTree as ET
b=json.load(open('/root/.vp/BASELINE.json'))
passed=set(); failed=set()
for tc in ET.parse(sys.argv[1]).getroot().iter('testcase'):
    name=f"{tc.get('classname')}::{tc.get('name')}"
    (failed if (tc.find('failure') is not None or tc.find('error') is not None) else passed).add(name)
missing=[t for t in b['stable_pass'] if t not in passed]
print(f'passed={len(passed)} failed={len(failed)} stable_pass_missing={len(missing)} unexpected_fail={sorted(failed-set(b["always_fail"]))}')
print(missing[:10])
sys.exit(1 if missing else 0)
PY
rc=$?; rm -f /tmp/repotest.$$.xml; exit $rc
