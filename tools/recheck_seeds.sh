#!/bin/sh
# Re-run every stored seeded change against its property's check (quick tier) and print caught/MISSED per seed.
for d in /verif/seeded/*/; do
  n=$(basename $d); id=${n%-*}
  r=$(/verif/tools/seedtest.sh $d/patch.diff $d/demo.py $id ${1:-quick} 2>&1)
  if echo "$r" | grep -q "^VIOLATION"; then echo "$n caught"; else echo "$n MISSED :: $(echo "$r" | tail -1 | cut -c1-120)"; fi
done
