#!/bin/sh
# Re-run every stored seeded change against its property's check (quick tier) and print caught/MISSED per seed.
# usage: tools/recheck_seeds.sh [tier] [parallel]
one() {
  d=$1; n=$(basename $d); id=$(cat $d/check_with 2>/dev/null || echo ${n%-*})
  if [ -e $d/retired ]; then echo "$n retired"; return; fi
  D=/tmp/seedrepo.r$$.$n
  rm -rf $D; mkdir -p $D && cp -r /repo/src $D/src
  if ! ( cd $D && git apply $d/patch.diff ); then echo "$n APPLY-FAILED"; rm -rf $D; return; fi
  r=$(VERIF_REPO=$D VERIF_NOEVIDENCE=1 /verif/check $id ${TIER:-quick} 2>&1)
  rm -rf $D
  if echo "$r" | grep -q "^VIOLATION"; then echo "$n caught"; else echo "$n MISSED :: $(echo "$r" | tail -1 | cut -c1-120)"; fi
}
TIER=${1:-quick}
if [ -n "$RECHECK_ONE" ]; then one "$RECHECK_ONE"; exit 0; fi
ls -d /verif/seeded/*/ | TIER=$TIER xargs -P ${2:-3} -I{} env RECHECK_ONE={} /verif/tools/recheck_seeds.sh $TIER
