#!/usr/bin/env python3
"""Statements of one repository file that NO shard of the given checks' quick tier executed:  tools/reach.py parser.py C06 C10 C07"""
import os, sys
sys.path.insert(0, os.path.join(os.path.dirname(os.path.abspath(__file__)), '..'))
from vf import core
fname, props = sys.argv[1], sys.argv[2:]
core.ensure_deps()
executed, nexec = set(), 0
for prop in props:
    mod = core.load_check(prop)
    specs = mod.plan('quick', 0)
    for sp in specs:
        sp.update({'seed': 0, 'reach': True})
    m = core.merge(core.run_shards(prop, specs))
    for f, e in (m.get('reach') or {}).items():
        if f.endswith('/' + fname):
            executed |= set(e['executed'])
            nexec = e['executable']
import subprocess
out = subprocess.run([core.PYTHON, '-c', f"import coverage,sys; c=coverage.Coverage(data_file=None); print(c.analysis2(sys.argv[1])[1])", os.path.join(core.REPO_SRC, 'bare_script', fname)],
                     capture_output=True, text=True, env=core.shard_env()).stdout
stmts = eval(out)
missing = [n for n in stmts if n not in executed]
src = open(os.path.join(core.REPO_SRC, 'bare_script', fname)).read().split('\n')
print(f'{fname}: {len(stmts) - len(missing)}/{len(stmts)} statements reached by {props}')
for n in missing:
    print(f'{n:5d}: {src[n - 1].rstrip()[:150]}')
