#!/bin/sh
# usage: tools/mut.sh '<sed-expr>' <file-relative-to-src/bare_script> <ID> [tier]   -- break-it test on a scratch copy
set -e
D=/tmp/mutrepo.$$
mkdir -p $D && cp -r /repo/src $D/src
sed -i "$1" $D/src/bare_script/$2
if diff -q /repo/src/bare_script/$2 $D/src/bare_script/$2 >/dev/null; then echo "MUTATION DID NOT APPLY"; rm -rf $D; exit 3; fi
VERIF_REPO=$D VERIF_NOEVIDENCE=1 /verif/check $3 ${4:-quick} 2>&1 | cut -c1-400 | grep -v "^  " | head -${5:-6}
rm -rf $D
