#!/bin/sh
# usage: tools/seedtest.sh <patch.diff> <demo.py> <ID> [tier]
# Confirms a seeded change on a scratch copy: applies, repo suite still green, demo fails with / passes without, and runs ./check <ID>.
P="$1"; DEMO="$2"; ID="$3"; TIER="${4:-quick}"
D=/tmp/seedrepo.$$
rm -rf $D; mkdir -p $D && cp -r /repo/src $D/src && cp /repo/pyproject.toml /repo/setup.cfg $D/ 2>/dev/null
( cd $D && git apply "$P" ) || { echo "APPLY-FAILED"; rm -rf $D; exit 3; }
( cd $D && PYTHONPATH=$D/src /venv/bin/python -m pytest src/tests -q -p no:cacheprovider --timeout=900 --junitxml=$D/junit.xml >/dev/null 2>&1 )
python3 - $D/junit.xml <<'PY'
import sys, json, xml.etree.ElementTree as ET
b=json.load(open('/root/.vp/BASELINE.json'))
passed=set(); failed=set()
for tc in ET.parse(sys.argv[1]).getroot().iter('testcase'):
    name=f"{tc.get('classname')}::{tc.get('name')}"
    (failed if (tc.find('failure') is not None or tc.find('error') is not None) else passed).add(name)
missing=[t for t in b['stable_pass'] if t not in passed]
print(f'SUITE passed={len(passed)} failed={len(failed)} stable_pass_missing={len(missing)} {missing[:3]}')
PY
PYTHONPATH=$D/src timeout 300 /venv/bin/python "$DEMO" >/dev/null 2>&1; echo "DEMO-with-defect rc=$?"
PYTHONPATH=/repo/src timeout 300 /venv/bin/python "$DEMO" >/dev/null 2>&1; echo "DEMO-clean rc=$?"
VERIF_REPO=$D VERIF_NOEVIDENCE=1 /verif/check $ID $TIER 2>&1 | grep -E "^VIOLATION|^INCONCLUSIVE|^C[0-9]+ " | cut -c1-200 | head -4
rm -rf $D
