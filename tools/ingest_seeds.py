#!/usr/bin/env python3
"""Copy confirmed seeded changes from /tmp/seed-out/<ID>/ to /verif/seeded/<ID>-<X>/ and record what was run."""
import json, os, re, shutil, subprocess, sys
MISSED_AT_FIRST = {'C03-B', 'C04-B', 'C05-B', 'C06-A', 'C06-B', 'C10-A', 'C10-B', 'C11-A', 'C17-A', 'C17-B', 'C18-A'}
ROOT = os.environ.get('SEED_DIR', '/tmp/seed-out')
LETTERS = os.environ.get('SEED_LETTERS', 'AB')
ids = sys.argv[1:] or sorted(d for d in os.listdir(ROOT) if re.match(r'C\d\d$', d))
for pid in ids:
    for x in LETTERS:
        src = f'{ROOT}/{pid}'
        patch, demo, notes = f'{src}/defect_{x}.diff', f'{src}/demo_{x}.py', f'{src}/notes_{x}.md'
        if not (os.path.exists(patch) and os.path.exists(demo)):
            print('skip', pid, x)
            continue
        out = subprocess.run(['/verif/tools/seedtest.sh', patch, demo, pid], capture_output=True, text=True).stdout
        suite = re.search(r'SUITE passed=(\d+) failed=(\d+) stable_pass_missing=(\d+)', out)
        dw = re.search(r'DEMO-with-defect rc=(\d+)', out)
        dc = re.search(r'DEMO-clean rc=(\d+)', out)
        viol = len(re.findall(r'^VIOLATION', out, re.M))
        ok = suite and suite.group(1) == '410' and suite.group(3) == '0' and dw and dw.group(1) != '0' and dc and dc.group(1) == '0'
        name = f'{pid}-{x}'
        print(name, 'confirmed' if ok else 'NOT-CONFIRMED', 'caught' if viol else 'MISSED', out.strip().split('\n')[0])
        if not ok:
            continue
        dst = f'/verif/seeded/{name}'
        os.makedirs(dst, exist_ok=True)
        shutil.copy(patch, f'{dst}/patch.diff')
        shutil.copy(demo, f'{dst}/demo.py')
        note = open(notes).read() if os.path.exists(notes) else ''
        if note:
            open(f'{dst}/notes.md', 'w').write(note)
        meta = {
            'property': pid,
            'origin': 'independent sub-agent that saw only the property text and a scratch worktree of the repository (nothing from /verif)',
            'breaks': note.strip().split('\n')[0][:300] if note else '',
            'needs_to_manifest': next((l.strip() for l in note.split('\n') if re.search(r'need|manifest|trigger|only', l, re.I)), '')[:400],
            'confirmed_by_me': {
                'applies_with': 'git apply patch.diff on a scratch copy of /repo (tools/seedtest.sh)',
                'repository_suite_with_change': f'passed={suite.group(1)} failed={suite.group(2)} (baseline 410/8), stable passes missing={suite.group(3)}',
                'demo_with_change_exit': int(dw.group(1)), 'demo_on_unchanged_tree_exit': int(dc.group(1)),
            },
            'check_result': {'command': f'VERIF_REPO=<scratch> ./check {pid} quick', 'violation_lines': viol, 'caught': bool(viol)},
            'caught_at_first_attempt': (name not in MISSED_AT_FIRST) if LETTERS == 'AB' else bool(viol),
        }
        json.dump(meta, open(f'{dst}/meta.json', 'w'), indent=1)
